//! Hand-written parametric Fun programs (structural recursion, higher-order functions, streams,
//! trees, early exit through labels, large shared constructors). They run as whole executables
//! with seeded arguments next to the generated programs.

use crate::prng::Rng;

pub const TEMPLATES: [(&str, &str, usize); 14] = [
    (
        "list-map-fold",
        r#"data List[A] { Nil, Cons(x: A, xs: List[A]) }
codata Fun[A, B] { apply(x: A): B }
codata Fun2[A, B, C] { apply2(x: A, y: B): C }
def range(n: i64, acc: List[i64]): List[i64] { if n <= 0 { acc } else { range(n - 1, Cons(n, acc)) } }
def map(f: Fun[i64, i64], l: List[i64]): List[i64] { l.case[i64] { Nil => Nil, Cons(x, xs) => Cons(f.apply[i64, i64](x), map(f, xs)) } }
def foldr(f: Fun2[i64, i64, i64], st: i64, l: List[i64]): i64 { l.case[i64] { Nil => st, Cons(y, ys) => f.apply2[i64, i64, i64](y, foldr(f, st, ys)) } }
def len(l: List[i64]): i64 { l.case[i64] { Nil => 0, Cons(x, xs) => 1 + len(xs) } }
def main(n: i64, m: i64): i64 {
  let l: List[i64] = range(n, Nil);
  let l2: List[i64] = map(new { apply(x) => (x * m) - n }, l);
  println_i64(len(l2));
  println_i64(foldr(new { apply2(a, b) => a + b }, 0, l2));
  println_i64(foldr(new { apply2(a, b) => (a * 3) - b }, m, l));
  len(l) + len(l2)
}
"#,
        2,
    ),
    (
        "tree-build-sum",
        r#"data Tree { Leaf, Node(l: Tree, v: i64, r: Tree) }
def build(d: i64, v: i64): Tree { if d <= 0 { Leaf } else { Node(build(d - 1, v * 2), v, build(d - 1, (v * 2) + 1)) } }
def sum(t: Tree): i64 { t.case { Leaf => 0, Node(l, v, r) => (sum(l) + v) + sum(r) } }
def depth(t: Tree): i64 { t.case { Leaf => 0, Node(l, v, r) => 1 + depth(l) } }
def mirror(t: Tree): Tree { t.case { Leaf => Leaf, Node(l, v, r) => Node(mirror(r), v, mirror(l)) } }
def main(d: i64, k: i64): i64 {
  let t: Tree = build(d, k);
  println_i64(sum(t));
  let u: Tree = mirror(t);
  println_i64(depth(u));
  println_i64(sum(u) - sum(t));
  sum(mirror(u)) % 251
}
"#,
        2,
    ),
    (
        "stream-take",
        r#"data List[A] { Nil, Cons(x: A, xs: List[A]) }
codata Stream[A] { hd: A, tl: Stream[A] }
def from(n: i64, step: i64): Stream[i64] { new { hd => n, tl => from(n + step, step) } }
def take(n: i64, s: Stream[i64]): List[i64] { if n <= 0 { Nil } else { Cons(s.hd[i64], take(n - 1, s.tl[i64])) } }
def sum(l: List[i64]): i64 { l.case[i64] { Nil => 0, Cons(x, xs) => x + sum(xs) } }
def zipadd(a: Stream[i64], b: Stream[i64]): Stream[i64] { new { hd => (a.hd[i64]) + (b.hd[i64]), tl => zipadd(a.tl[i64], b.tl[i64]) } }
def main(n: i64, a: i64, b: i64): i64 {
  let s: Stream[i64] = zipadd(from(a, 1), from(b, a));
  let l: List[i64] = take(n, s);
  println_i64(sum(l));
  print_i64(s.hd[i64]);
  println_i64(s.tl[i64].hd[i64]);
  sum(take(n, from(0, b)))
}
"#,
        3,
    ),
    (
        "label-early-exit",
        r#"data List[A] { Nil, Cons(x: A, xs: List[A]) }
def range(n: i64, acc: List[i64]): List[i64] { if n <= 0 { acc } else { range(n - 1, Cons(n * n, acc)) } }
def find(l: List[i64], limit: i64, k :cns i64): i64 { l.case[i64] { Nil => 0, Cons(x, xs) => if x > limit { goto k(x) } else { x + find(xs, limit, k) } } }
def main(n: i64, limit: i64): i64 {
  let l: List[i64] = range(n, Nil);
  let r: i64 = label k { (find(l, limit, k)) * 1000 };
  println_i64(r);
  let r2: i64 = label k2 { if r > limit { goto k2(r - limit) } else { label k3 { goto k2((goto k3(7)) + 1) } } };
  println_i64(r2);
  if r2 == 0 { exit 3 } else { r2 }
}
"#,
        2,
    ),
    (
        "big-shared",
        r#"data Big { Big8(a: i64, b: i64, c: i64, d: i64, e: i64, f: i64, g: i64, h: i64), Big0 }
data Pair[A, B] { Tup(x: A, y: B) }
def sumbig(b: Big): i64 { b.case { Big8(a, b, c, d, e, f, g, h) => ((((((a + b) + c) + d) + e) + f) + g) + h, Big0 => 0 } }
def twice(p: Pair[Big, Big]): i64 { p.case[Big, Big] { Tup(x, y) => sumbig(x) - (2 * sumbig(y)) } }
def loop(n: i64, acc: i64, keep: Big): i64 { if n <= 0 { acc + sumbig(keep) } else { let b: Big = Big8(n, acc, n * 2, 1, 2, 3, 4, acc % 7); loop(n - 1, (acc + twice(Tup(b, b))) % 1000003, if (n % 3) == 0 { b } else { keep }) } }
def main(n: i64, s: i64): i64 {
  let r: i64 = loop(n, s, Big0);
  println_i64(r);
  r
}
"#,
        2,
    ),
    (
        "even-odd-many-args",
        r#"def even(n: i64, a: i64, b: i64, c: i64, d: i64, e: i64, f: i64, g: i64): i64 { if n == 0 { ((((((a + b) + c) + d) + e) + f) + g) } else { odd(n - 1, b, c, d, e, f, g, a) } }
def odd(n: i64, a: i64, b: i64, c: i64, d: i64, e: i64, f: i64, g: i64): i64 { if n == 0 { (a - b) + ((c - d) + ((e - f) + g)) } else { even(n - 1, g, a - 1, b, c + 1, d, e * 2, f) } }
def main(n: i64, x: i64, y: i64): i64 {
  println_i64(even(n, x, y, 3, 4, 5, 6, 7));
  println_i64(odd(n, 7, 6, 5, 4, 3, y, x));
  if x < y { even(n + 1, 1, 2, 3, 4, 5, 6, 7) } else { odd(n + 1, 1, 2, 3, 4, 5, 6, 7) }
}
"#,
        3,
    ),
    (
        "lazy-pair-by-name",
        r#"codata LPair[A, B] { fst: A, snd: B }
codata Fun[A, B] { apply(x: A): B }
def noisy(n: i64): i64 { println_i64(n); n * 2 }
def mk(a: i64, b: i64): LPair[i64, i64] { new { fst => noisy(a), snd => noisy(b) } }
def use2(p: LPair[i64, i64]): i64 { (p.fst[i64, i64]) + (p.fst[i64, i64]) }
def compose(f: Fun[i64, i64], g: Fun[i64, i64]): Fun[i64, i64] { new { apply(x) => f.apply[i64, i64](g.apply[i64, i64](x)) } }
def main(a: i64, b: i64): i64 {
  let p: LPair[i64, i64] = mk(a, b);
  let r: i64 = use2(p);
  println_i64(r);
  let q: LPair[i64, i64] = (print_i64(a); mk(b, a));
  let h: Fun[i64, i64] = compose(new { apply(x) => x + (q.snd[i64, i64]) }, new { apply(y) => y * b });
  println_i64(h.apply[i64, i64](a));
  h.apply[i64, i64](r)
}
"#,
        2,
    ),
    (
        "option-chain",
        r#"data Opt[A] { None, Some(v: A) }
data List[A] { Nil, Cons(x: A, xs: List[A]) }
def safediv(a: i64, b: i64): Opt[i64] { if b == 0 { None } else { Some(a / b) } }
def chain(l: List[i64], acc: i64): Opt[i64] { l.case[i64] { Nil => Some(acc), Cons(d, ds) => safediv(acc, d).case[i64] { None => None, Some(q) => chain(ds, q + (acc % ((d * d) + 1))) } } }
def show(o: Opt[i64]): i64 { o.case[i64] { None => (println_i64(-1); 0), Some(v) => (println_i64(v); v) } }
def main(a: i64, b: i64, c: i64): i64 {
  let r: i64 = show(chain(Cons(b, Cons(c, Cons(b - c, Nil))), a));
  show(chain(Cons(3, Cons(b, Nil)), r)) + r
}
"#,
        3,
    ),
    (
        "lifted-rest",
        r#"data List[A] { Nil, Cons(x: A, xs: List[A]) }
data Opt[A] { None, Some(v: A) }
def upto(n: i64): List[i64] { if n <= 0 { Nil } else { Cons(n, upto(n - 1)) } }
def sum(l: List[i64]): i64 { l.case[i64] { Nil => 0, Cons(x, xs) => x + sum(xs) } }
def first(l: List[i64]): Opt[i64] { l.case[i64] { Nil => None, Cons(x, xs) => Some(x) } }
def pick(n: i64, a: i64, b: i64, c: i64, d: i64): i64 {
  let l: List[i64] = upto(n);
  if n < 3 { if a < b { sum(l) } else { c } } else { if b < 0 { a } else { d } }
}
def pick2(n: i64, a: i64, b: i64, c: i64): Opt[i64] {
  let o: Opt[i64] = first(upto(n));
  if a == 0 { if b < a { o } else { Some(a) } } else { if b < a { Some(b) } else { Some(c) } }
}
def show(o: Opt[i64]): i64 { o.case[i64] { None => (println_i64(-1); 0), Some(v) => (println_i64(v); v) } }
def main(n: i64, a: i64, b: i64): i64 {
  println_i64(pick(n, a, b, 77, 88));
  println_i64(pick(2, b, a, 55, 66));
  let r: i64 = show(pick2(n, a, b, 99));
  show(pick2(n - 1, b - a, a, 44)) + r
}
"#,
        3,
    ),
    (
        "effect-order",
        r#"data List[A] { Nil, Cons(x: A, xs: List[A]) }
data Trio { T3(a: i64, l: List[i64], b: i64) }
codata Fun2[A, B, C] { apply2(x: A, y: B): C }
def say(v: i64): i64 { println_i64(v); v }
def sum(l: List[i64]): i64 { l.case[i64] { Nil => 0, Cons(x, xs) => x + sum(xs) } }
def use3(t: Trio): i64 { t.case { T3(a, l, b) => ((a * 100) + (sum(l) * 10)) + b } }
def three(a: i64, b: i64, c: i64): i64 { ((a * 7) - (b * 3)) + c }
def main(n: i64, a: i64, b: i64): i64 {
  let t: Trio = T3(say(a), Cons(say(b), Cons(say(n), Nil)), say(a - b));
  println_i64(use3(t));
  println_i64(three(say(1), (print_i64(2); b), say(3)));
  let f: Fun2[i64, i64, i64] = new { apply2(x, y) => (x * 2) - y };
  println_i64(f.apply2[i64, i64, i64](say(n + 1), say(n + 2)));
  if say(a) < say(b) { say(10) - say(20) } else { say(30) * say(2) }
}
"#,
        3,
    ),
    (
        "name-reuse",
        r#"data Pair[A, B] { Tup(x: A, y: B) }
data List[A] { Nil, Cons(x: A, xs: List[A]) }
def f(p: Pair[i64, i64], q: Pair[i64, i64]): i64 {
  let a: i64 = p.case[i64, i64] { Tup(x, y) => x };
  q.case[i64, i64] { Tup(x, y) => (x * 100) + (y + a) }
}
def g(x: i64, l: List[i64]): i64 {
  if 12 < l.case[i64] { Nil => 0, Cons(x0, t) => (let x: i64 = x + 1; x0 + x) } { 1 } else { 0 }
}
def h(x: i64, l: List[i64]): i64 {
  l.case[i64] { Nil => 0, Cons(x0, t) => (let x: i64 = x + 1; (let x1: i64 = x0 * 2; x1 + x)) }
}
def k(p: Pair[i64, i64]): i64 {
  let a0: i64 = p.case[i64, i64] { Tup(x, y) => (let x: i64 = y; x + 1) };
  let x0: i64 = (let a0: i64 = a0 * 2; a0 + 1);
  p.case[i64, i64] { Tup(y, x) => ((x0 * 1000) + (x * 10)) + (y + a0) }
}
def m(l: List[Pair[i64, i64]], acc: i64): i64 {
  l.case[Pair[i64, i64]] { Nil => acc, Cons(x, xs) => m(xs, (x.case[i64, i64] { Tup(x, xs) => x - xs }) + acc) }
}
def main(n: i64, a: i64, b: i64): i64 {
  println_i64(f(Tup(a, b), Tup(n, 2)));
  println_i64(g(a, Cons(b, Nil)));
  println_i64(h(n, Cons(a, Cons(b, Nil))));
  println_i64(k(Tup(a, n)));
  println_i64(m(Cons(Tup(a, b), Cons(Tup(n, a), Nil)), b));
  0
}
"#,
        3,
    ),
    (
        "two-labels",
        r#"data List[A] { Nil, Cons(x: A, xs: List[A]) }
def scan(l: List[i64], neg :cns i64, zero :cns i64): i64 {
  l.case[i64] { Nil => 0,
                Cons(x, xs) => if x == 0 { goto zero(100) } else { if x < 0 { goto neg(200) } else { x + scan(xs, neg, zero) } } }
}
def classify(l: List[i64]): i64 {
  label neg { 1000 + (label zero { scan(l, neg, zero) }) }
}
def both(a: i64, j :cns i64, k :cns i64, b: i64): i64 {
  if a < b { goto j(a) } else { if a == b { goto k(b + 1) } else { a - b } }
}
def main(n: i64, a: i64, b: i64): i64 {
  println_i64(classify(Cons(1, Cons(2, Cons(n, Nil)))));
  println_i64(classify(Cons(a, Cons(b, Cons(3, Nil)))));
  println_i64(classify(Cons(1, Cons(0 - n, Cons(0, Nil)))));
  println_i64(label p { 50000 + (label q { 700 + both(a, q, p, b) }) });
  label r { 10 + (label s { 20 + both(n, r, s, 5) }) }
}
"#,
        3,
    ),
    (
        "ctor-order",
        r#"data Res[A] { Ok(x: A), Err, Warn(x: A, w: i64) }
def main(n: i64, a: i64): i64 {
  println_i64(find(n, a).case[i64] { Ok(v) => v, Err => 0 - 1, Warn(v, w) => v + w });
  println_i64(find(n + 1, a).case[i64] { Warn(v, w) => v - w, Ok(v) => v * 2, Err => 7 });
  println_i64(wrap(n).case[Res[i64]] { Err => 3, Ok(r) => r.case[i64] { Err => 4, Ok(v) => v, Warn(v, w) => w }, Warn(r, w) => w });
  0
}
def find(n: i64, a: i64): Res[i64] { if n == 3 { Ok(a) } else { if n < 3 { Err } else { Warn(a, n) } } }
def wrap(n: i64): Res[Res[i64]] { if n < 2 { Err } else { if n < 6 { Ok(find(n, n * 11)) } else { Warn(find(n - 4, n), n) } } }
"#,
        2,
    ),
    (
        "wrapping-difference",
        r#"def lt(a: i64, b: i64): i64 { if a - b < 0 { 1 } else { 2 } }
def le(a: i64, b: i64): i64 { if a - b <= 0 { 1 } else { 2 } }
def gt(a: i64, b: i64): i64 { if a - b > 0 { 1 } else { 2 } }
def ge(a: i64, b: i64): i64 { if 0 <= (a - b) { 1 } else { 2 } }
def main(n: i64, a: i64, b: i64): i64 {
  print_i64(lt(a, b)); print_i64(le(a, b)); print_i64(gt(a, b)); println_i64(ge(a, b));
  print_i64(lt(9223372036854775807, (0 - n) - 1)); print_i64(le(9223372036854775807, (0 - n) - 1));
  print_i64(gt(0 - 9223372036854775807, n + 2)); println_i64(ge(0 - 9223372036854775807, n + 2));
  println_i64(lt(a * 4611686018427387904, b * 4611686018427387904));
  (9223372036854775807 - ((0 - n) - 1)) % 251
}
"#,
        3,
    ),
];

/// a template with seeded arguments
pub fn pick(rng: &mut Rng) -> (String, String, Vec<String>) {
    let (name, src, k) = TEMPLATES[rng.below(TEMPLATES.len())];
    let args: Vec<String> = (0..k)
        .map(|i| {
            // the first argument usually drives recursion depth: keep it small
            let v = if i == 0 { rng.range(0, if name.starts_with("tree") { 8 } else { 11 }) } else if rng.pct(15) { rng.range(-1_000_000, 1_000_000) } else { rng.range(-9, 30) };
            v.to_string()
        })
        .collect();
    (format!("template:{name}"), src.to_string(), args)
}
