//! Reference semantics of Fun: an environment/continuation machine over the checked AST.
//! 64-bit wrapping arithmetic, truncating division, eager integers and data, codata as closures,
//! first-class re-enterable labels (persistent continuations), immediate termination on exit.
//! Independent of fun2core / core_lang / core2axcut / axcut and of all back ends.

use fun::syntax::context::Chirality;
use fun::syntax::program::CheckedProgram;
use fun::syntax::terms::*;
use fun::syntax::types::{OptTyped, Ty};
use std::rc::Rc;

#[derive(Clone)]
pub enum FV {
    Int(i64),
    Data(Rc<(String, Vec<FV>)>),
    Codata(Rc<CloF>),
    Cont(K),
    /// by-name binding of a codata-typed term: re-evaluated at every use
    Thunk(Rc<Term>, Env),
}

pub struct CloF {
    clauses: Vec<Clause>,
    env: Env,
}

#[derive(Clone)]
pub struct Env(Option<Rc<EnvNode>>);

struct EnvNode {
    name: String,
    covar: bool,
    val: FV,
    next: Env,
}

impl Env {
    fn empty() -> Env {
        Env(None)
    }
    fn bind(&self, name: &str, covar: bool, val: FV) -> Env {
        Env(Some(Rc::new(EnvNode { name: name.to_string(), covar, val, next: self.clone() })))
    }
    fn get(&self, name: &str, covar: bool) -> Option<FV> {
        let mut cur = &self.0;
        while let Some(n) = cur {
            if n.covar == covar && n.name == name {
                return Some(n.val.clone());
            }
            cur = &n.next.0;
        }
        None
    }
}

#[derive(Clone)]
pub struct K(Rc<Frame>);

enum ArgsFor {
    Call(String),
    Ctor(String),
    /// destructor call: the arguments are evaluated before the scrutinee (consumer first for
    /// codata: the observation `D(values)` is complete before the observed term runs)
    Dtor(Rc<Term>, String),
}

enum Frame {
    Top,
    OpL(BinOp, Rc<Term>, Env, K),
    OpR(BinOp, i64, K),
    IfFst(IfC, Env, K),
    IfSnd(IfC, i64, Env, K),
    Print(bool, Rc<Term>, Env, K),
    Let(String, Rc<Term>, Env, K),
    Args(ArgsFor, Vec<FV>, Vec<Term>, usize, Env, K),
    Case(Vec<Clause>, Env, K),
    DtorApply(String, Vec<FV>, K),
    Exit,
}

#[derive(Clone, Debug, PartialEq, Eq)]
pub enum FunEnd {
    /// main returned / exit was called with this value
    Done(i64),
    Undefined(String),
    Budget,
    Stuck(String),
}

pub struct FunOutcome {
    pub stdout: Vec<u8>,
    pub prints: Vec<(bool, i64)>,
    pub end: FunEnd,
    pub steps: u64,
}

enum State {
    Eval(Rc<Term>, Env, K),
    Ret(FV, K),
}

fn int(v: &FV) -> Result<i64, String> {
    match v {
        FV::Int(i) => Ok(*i),
        _ => Err("expected an integer".into()),
    }
}

pub fn render_i64(out: &mut Vec<u8>, newline: bool, v: i64) {
    out.extend_from_slice(v.to_string().as_bytes());
    if newline {
        out.push(b'\n');
    }
}

pub fn run(p: &CheckedProgram, args: &[i64], budget: u64) -> FunOutcome {
    let mut out = FunOutcome { stdout: Vec::new(), prints: Vec::new(), end: FunEnd::Budget, steps: 0 };
    let codata: Vec<String> = p.codata_types.iter().map(|c| c.name.clone()).collect();
    let is_codata = |t: &Option<Ty>| -> bool {
        match t {
            Some(Ty::Decl { name, type_args, .. }) => {
                use printer::Print;
                let full = name.clone() + &type_args.print_to_string(None);
                codata.iter().any(|c| *c == full || c == name)
            }
            _ => false,
        }
    };
    let Some(main) = p.defs.iter().find(|d| d.name == "main") else {
        out.end = FunEnd::Stuck("no main".into());
        return out;
    };
    if main.context.bindings.len() != args.len() {
        out.end = FunEnd::Stuck("argument count".into());
        return out;
    }
    let mut env = Env::empty();
    for (b, a) in main.context.bindings.iter().zip(args) {
        env = env.bind(&b.var, false, FV::Int(*a));
    }
    let mut st = State::Eval(Rc::new(main.body.clone()), env, K(Rc::new(Frame::Top)));
    let r: Result<i64, FunEnd> = (|| loop {
        out.steps += 1;
        if out.steps > budget {
            return Err(FunEnd::Budget);
        }
        let stuck = |m: &str| FunEnd::Stuck(m.to_string());
        st = match std::mem::replace(&mut st, State::Ret(FV::Int(0), K(Rc::new(Frame::Top)))) {
            State::Eval(t, env, k) => match &*t {
                Term::Lit(l) => State::Ret(FV::Int(l.lit), k),
                Term::Paren(p) => State::Eval(p.inner.clone(), env, k),
                Term::XVar(x) => {
                    let covar = x.chi == Some(Chirality::Cns);
                    match env.get(&x.var, covar) {
                        Some(FV::Thunk(t, e)) => State::Eval(t, e, k),
                        Some(v) => State::Ret(v, k),
                        None => return Err(stuck(&format!("unbound {}", x.var))),
                    }
                }
                Term::Op(o) => State::Eval(o.fst.clone(), env.clone(), K(Rc::new(Frame::OpL(o.op.clone(), o.snd.clone(), env, k)))),
                Term::IfC(i) => State::Eval(i.fst.clone(), env.clone(), K(Rc::new(Frame::IfFst(i.clone(), env, k)))),
                Term::PrintI64(p) => State::Eval(p.arg.clone(), env.clone(), K(Rc::new(Frame::Print(p.newline, p.next.clone(), env, k)))),
                Term::Let(l) => {
                    // VERIF_REF_BYVALUE=1 is a self-test knob of the harness: with an (incorrect) by-value
                    // reference the check must raise alarms, which shows that the workload distinguishes
                    if is_codata(&Some(l.var_ty.clone())) && std::env::var("VERIF_REF_BYVALUE").is_err() {
                        let th = FV::Thunk(l.bound_term.clone(), env.clone());
                        State::Eval(l.in_term.clone(), env.bind(&l.variable, false, th), k)
                    } else {
                        State::Eval(l.bound_term.clone(), env.clone(), K(Rc::new(Frame::Let(l.variable.clone(), l.in_term.clone(), env, k))))
                    }
                }
                Term::Call(c) => match args_step(p, ArgsFor::Call(c.name.clone()), Vec::new(), c.args.entries.clone(), 0, env, k) {
                    Ok(s) => s,
                    Err(m) => return Err(stuck(&m)),
                },
                Term::Constructor(c) => match args_step(p, ArgsFor::Ctor(c.id.clone()), Vec::new(), c.args.entries.clone(), 0, env, k) {
                    Ok(s) => s,
                    Err(m) => return Err(stuck(&m)),
                },
                Term::Destructor(d) => match args_step(p, ArgsFor::Dtor(d.scrutinee.clone(), d.id.clone()), Vec::new(), d.args.entries.clone(), 0, env, k) {
                    Ok(s) => s,
                    Err(m) => return Err(stuck(&m)),
                },
                Term::Case(c) => State::Eval(c.scrutinee.clone(), env.clone(), K(Rc::new(Frame::Case(c.clauses.clone(), env, k)))),
                Term::New(n) => State::Ret(FV::Codata(Rc::new(CloF { clauses: n.clauses.clone(), env })), k),
                Term::Label(l) => {
                    let env2 = env.bind(&l.label, true, FV::Cont(k.clone()));
                    State::Eval(l.term.clone(), env2, k)
                }
                Term::Goto(g) => match env.get(&g.target, true) {
                    Some(FV::Cont(k2)) => State::Eval(g.term.clone(), env, k2),
                    _ => return Err(stuck(&format!("goto: unbound label {}", g.target))),
                },
                Term::Exit(e) => State::Eval(e.arg.clone(), env, K(Rc::new(Frame::Exit))),
            },
            State::Ret(v, k) => match &*k.0 {
                Frame::Top => return Ok(int(&v).map_err(|m| stuck(&m))?),
                Frame::Exit => return Ok(int(&v).map_err(|m| stuck(&m))?),
                Frame::OpL(op, snd, env, k2) => {
                    let a = int(&v).map_err(|m| stuck(&m))?;
                    State::Eval(snd.clone(), env.clone(), K(Rc::new(Frame::OpR(op.clone(), a, k2.clone()))))
                }
                Frame::OpR(op, a, k2) => {
                    let b = int(&v).map_err(|m| stuck(&m))?;
                    let a = *a;
                    let r = match op {
                        BinOp::Sum => a.wrapping_add(b),
                        BinOp::Sub => a.wrapping_sub(b),
                        BinOp::Prod => a.wrapping_mul(b),
                        BinOp::Div | BinOp::Rem => {
                            if b == 0 {
                                return Err(FunEnd::Undefined("division by zero".into()));
                            }
                            if a == i64::MIN && b == -1 {
                                return Err(FunEnd::Undefined("overflowing division".into()));
                            }
                            if matches!(op, BinOp::Div) { a / b } else { a % b }
                        }
                    };
                    State::Ret(FV::Int(r), k2.clone())
                }
                Frame::IfFst(i, env, k2) => {
                    let a = int(&v).map_err(|m| stuck(&m))?;
                    match &i.snd {
                        Some(s) => State::Eval(s.clone(), env.clone(), K(Rc::new(Frame::IfSnd(i.clone(), a, env.clone(), k2.clone())))),
                        None => branch(i, a, 0, env.clone(), k2.clone()),
                    }
                }
                Frame::IfSnd(i, a, env, k2) => {
                    let b = int(&v).map_err(|m| stuck(&m))?;
                    branch(i, *a, b, env.clone(), k2.clone())
                }
                Frame::Print(newline, next, env, k2) => {
                    let a = int(&v).map_err(|m| stuck(&m))?;
                    render_i64(&mut out.stdout, *newline, a);
                    out.prints.push((*newline, a));
                    State::Eval(next.clone(), env.clone(), k2.clone())
                }
                Frame::Let(x, body, env, k2) => State::Eval(body.clone(), env.bind(x, false, v), k2.clone()),
                Frame::Args(what, done, rest, idx, env, k2) => {
                    let mut done = done.clone();
                    done.push(v);
                    let what2 = match what {
                        ArgsFor::Call(n) => ArgsFor::Call(n.clone()),
                        ArgsFor::Ctor(n) => ArgsFor::Ctor(n.clone()),
                        ArgsFor::Dtor(c, n) => ArgsFor::Dtor(c.clone(), n.clone()),
                    };
                    match args_step(p, what2, done, rest.clone(), *idx + 1, env.clone(), k2.clone()) {
                        Ok(s) => s,
                        Err(m) => return Err(stuck(&m)),
                    }
                }
                Frame::Case(clauses, env, k2) => {
                    let FV::Data(d) = &v else { return Err(stuck("case: not data")) };
                    let Some(c) = clauses.iter().find(|c| c.xtor == d.0) else { return Err(stuck("case: no clause")) };
                    let names = binder_names(c);
                    if names.len() != d.1.len() {
                        return Err(stuck("case: binder count"));
                    }
                    let mut e2 = env.clone();
                    for ((n, covar), val) in names.iter().zip(d.1.iter()) {
                        e2 = e2.bind(n, *covar, val.clone());
                    }
                    State::Eval(Rc::new(c.body.clone()), e2, k2.clone())
                }
                Frame::DtorApply(id, done, k2) => {
                    let FV::Codata(c) = &v else { return Err(stuck("destructor: not codata")) };
                    let Some(cl) = c.clauses.iter().find(|cl| cl.xtor == *id) else { return Err(stuck(&format!("no clause for destructor {id}"))) };
                    let names = binder_names(cl);
                    if names.len() != done.len() {
                        return Err(stuck(&format!("destructor {id}: argument count")));
                    }
                    let mut e = c.env.clone();
                    for ((n, covar), v) in names.iter().zip(done.iter()) {
                        e = e.bind(n, *covar, v.clone());
                    }
                    State::Eval(Rc::new(cl.body.clone()), e, k2.clone())
                }
            },
        };
    })();
    out.end = match r {
        Ok(v) => FunEnd::Done(v),
        Err(e) => e,
    };
    return out;

    fn binder_names(c: &Clause) -> Vec<(String, bool)> {
        if c.context.bindings.len() == c.context_names.bindings.len() && !c.context.bindings.is_empty() {
            c.context.bindings.iter().map(|b| (b.var.clone(), b.chi == Chirality::Cns)).collect()
        } else {
            c.context_names.bindings.iter().map(|n| (n.clone(), false)).collect()
        }
    }

    fn branch(i: &IfC, a: i64, b: i64, env: Env, k: K) -> State {
        let t = match i.sort {
            IfSort::Equal => a == b,
            IfSort::NotEqual => a != b,
            IfSort::Less => a < b,
            IfSort::LessOrEqual => a <= b,
            IfSort::Greater => a > b,
            IfSort::GreaterOrEqual => a >= b,
        };
        State::Eval(if t { i.thenc.clone() } else { i.elsec.clone() }, env, k)
    }

    /// evaluate the next argument, or dispatch when all arguments are values
    fn args_step(p: &CheckedProgram, what: ArgsFor, done: Vec<FV>, rest: Vec<Term>, idx: usize, env: Env, k: K) -> Result<State, String> {
        let mut done = done;
        let mut idx = idx;
        while idx < rest.len() {
            // codata-typed arguments are passed by name
            let by_name = match rest[idx].get_type() {
                Some(Ty::Decl { name, type_args, .. }) => {
                    use printer::Print;
                    let full = name.clone() + &type_args.print_to_string(None);
                    p.codata_types.iter().any(|c| c.name == full || c.name == name)
                }
                _ => false,
            };
            let is_covar = matches!(&rest[idx], Term::XVar(x) if x.chi == Some(Chirality::Cns));
            if by_name && !is_covar {
                done.push(FV::Thunk(Rc::new(rest[idx].clone()), env.clone()));
                idx += 1;
                continue;
            }
            let t = Rc::new(rest[idx].clone());
            return Ok(State::Eval(t, env.clone(), K(Rc::new(Frame::Args(what, done, rest, idx, env, k)))));
        }
        match what {
            ArgsFor::Ctor(name) => Ok(State::Ret(FV::Data(Rc::new((name, done))), k)),
            ArgsFor::Call(name) => {
                let d = p.defs.iter().find(|d| d.name == name).ok_or_else(|| format!("unknown definition {name}"))?;
                if d.context.bindings.len() != done.len() {
                    return Err(format!("call {name}: argument count"));
                }
                let mut e = Env::empty();
                for (b, v) in d.context.bindings.iter().zip(done) {
                    e = e.bind(&b.var, b.chi == Chirality::Cns, v);
                }
                Ok(State::Eval(Rc::new(d.body.clone()), e, k))
            }
            ArgsFor::Dtor(scrutinee, id) => Ok(State::Eval(scrutinee, env, K(Rc::new(Frame::DtorApply(id, done, k))))),
        }
    }
}
