//! Text-level x86-64 emulator for the NASM-syntax text emitted by `axcut2x86_64`.
//! Written from the Intel SDM semantics of the handful of instructions the backend can print and
//! from the System V ABI; shares no code with the backend.

use crate::mach::*;
use std::collections::BTreeMap;

pub const RSP: u8 = 0;
pub const RCX: u8 = 1;
pub const RBX: u8 = 2;
pub const RBP: u8 = 3;
pub const RAX: u8 = 4;
pub const RDX: u8 = 5;
pub const RSI: u8 = 6;
pub const RDI: u8 = 7;

pub const REG_NAMES: [&str; 16] =
    ["rsp", "rcx", "rbx", "rbp", "rax", "rdx", "rsi", "rdi", "r8", "r9", "r10", "r11", "r12", "r13", "r14", "r15"];
/// System V: registers a callee may destroy
pub const CALLER_SAVED: [u8; 9] = [RAX, RCX, RDX, RSI, RDI, 8, 9, 10, 11];
/// System V: registers a callee must preserve (besides rsp)
pub const CALLEE_SAVED: [u8; 6] = [RBX, RBP, 12, 13, 14, 15];
/// System V integer argument registers
pub const ARG_REGS: [u8; 6] = [RDI, RSI, RDX, RCX, 8, 9];

const RET_SENTINEL: u64 = 0x0000_7e7e_0000_1000;

#[derive(Clone, Debug, PartialEq)]
pub enum Opnd {
    R(u8),
    M(u8, i64),
    I(i64),
}

#[derive(Clone, Copy, Debug, PartialEq, Eq)]
pub enum Cc {
    E,
    Ne,
    L,
    Le,
    G,
    Ge,
    S,
    Ns,
    A,
    Ae,
    B,
    Be,
}

#[derive(Clone, Copy, Debug, PartialEq)]
pub enum Lop {
    And,
    Or,
    Xor,
}
#[derive(Clone, Copy, Debug, PartialEq)]
pub enum Uop {
    Neg,
    Not,
    Inc,
    Dec,
}
#[derive(Clone, Copy, Debug, PartialEq)]
pub enum Sop {
    Shl,
    Shr,
    Sar,
}

#[derive(Clone, Debug, PartialEq)]
pub enum Ins {
    Add(Opnd, Opnd),
    Sub(Opnd, Opnd),
    Cmp(Opnd, Opnd),
    Mov(Opnd, Opnd),
    Imul(u8, Opnd),
    Idiv(Opnd),
    /// further integer instructions (not emitted by the pinned back end; accepted so that a change
    /// that starts using them is judged by its behaviour): two-operand logic, test, one-operand
    /// neg/not/inc/dec, shifts by an immediate or cl, xchg, nop
    Logic(Lop, Opnd, Opnd),
    Test(Opnd, Opnd),
    Unary(Uop, Opnd),
    Shift(Sop, Opnd, Opnd),
    Xchg(Opnd, Opnd),
    Nop,
    Cqo,
    JmpR(u8),
    Jmp(usize),
    JmpNear(usize),
    Jcc(Cc, usize),
    Lea(u8, usize),
    Push(u8),
    Pop(u8),
    Call(String),
    Ret,
    Marker(Marker),
    Probe(usize),
}

pub struct Prog {
    pub ins: Vec<Ins>,
    pub addr: Vec<u64>,
    pub src_line: Vec<usize>,
    pub labels: BTreeMap<String, usize>,
    pub probe_names: Vec<String>,
    pub entry: usize,
    pub code_base: u64,
    pub code_end: u64,
    pub n_real: usize,
}

fn reg(s: &str) -> Option<u8> {
    REG_NAMES.iter().position(|r| *r == s).map(|i| i as u8)
}

fn fits32(i: i64) -> bool {
    i >= i32::MIN as i64 && i <= i32::MAX as i64
}

fn parse_opnd(s: &str, line: usize) -> Result<Opnd, LoadErr> {
    let s = s.trim();
    if let Some(r) = reg(s) {
        return Ok(Opnd::R(r));
    }
    if let Some(inner) = s.strip_prefix('[').and_then(|x| x.strip_suffix(']')) {
        let (b, d) = inner.split_once('+').ok_or_else(|| LoadErr::Harness(format!("line {line}: memory operand `{s}`")))?;
        let b = reg(b.trim()).ok_or_else(|| LoadErr::Harness(format!("line {line}: base register `{b}`")))?;
        let d: i64 = d.trim().parse().map_err(|_| LoadErr::Harness(format!("line {line}: displacement `{d}`")))?;
        if !fits32(d) {
            return Err(LoadErr::Text(Viol::new(Class::Text, format!("line {line}: displacement {d} does not fit 32 bits"))));
        }
        return Ok(Opnd::M(b, d));
    }
    if let Ok(i) = s.parse::<i64>() {
        return Ok(Opnd::I(i));
    }
    Err(LoadErr::Harness(format!("line {line}: operand `{s}`")))
}

pub fn load(text: &str, code_base: u64) -> Result<Prog, LoadErr> {
    let mut ins: Vec<Ins> = Vec::new();
    let mut src_line = Vec::new();
    let mut labels: BTreeMap<String, usize> = BTreeMap::new();
    let mut fixups: Vec<(usize, String, usize)> = Vec::new(); // (ins index, label, line)
    let mut probe_names: Vec<String> = Vec::new();
    let mut probe_idx: BTreeMap<String, usize> = BTreeMap::new();
    let mut externs: Vec<String> = Vec::new();
    for (ln0, raw) in text.lines().enumerate() {
        let line = ln0 + 1;
        let t = raw.trim();
        if t.is_empty() {
            continue;
        }
        if let Some(c) = t.strip_prefix(';') {
            let c = c.trim();
            if let Some(m) = parse_marker(c) {
                ins.push(Ins::Marker(m));
                src_line.push(line);
            } else if c.starts_with("@env") {
                return Err(LoadErr::Harness(format!("line {line}: malformed marker `{c}`")));
            } else if c.starts_with('#') {
                let k = probe_key(c);
                let i = *probe_idx.entry(k.clone()).or_insert_with(|| {
                    probe_names.push(k);
                    probe_names.len() - 1
                });
                ins.push(Ins::Probe(i));
                src_line.push(line);
            }
            continue;
        }
        if t.starts_with("section ") || t.starts_with("global ") {
            continue;
        }
        if let Some(e) = t.strip_prefix("extern ") {
            externs.push(e.trim().to_string());
            continue;
        }
        if let Some(l) = t.strip_suffix(':') {
            if l.contains(char::is_whitespace) {
                // no assembler accepts white space inside a symbol
                return Err(LoadErr::Text(Viol::new(Class::Text, format!("line {line}: label `{l}` contains white space"))));
            }
            if labels.insert(l.to_string(), ins.len()).is_some() {
                return Err(LoadErr::Text(Viol::new(Class::Text, format!("line {line}: label `{l}` defined twice"))));
            }
            continue;
        }
        // a line with unbalanced brackets is not acceptable to any assembler (e.g. a symbol that was
        // broken across two lines)
        if t.matches('[').count() != t.matches(']').count() || t.matches('(').count() != t.matches(')').count() {
            return Err(LoadErr::Text(Viol::new(Class::Text, format!("line {line}: `{t}` has unbalanced brackets"))));
        }
        // instruction
        let (mn, rest) = match t.split_once(char::is_whitespace) {
            Some((m, r)) => (m, r.trim()),
            None => (t, ""),
        };
        let (qword, rest) = match rest.strip_prefix("qword ") {
            Some(r) => (true, r.trim()),
            None => (false, rest),
        };
        let ops: Vec<&str> = if rest.is_empty() { vec![] } else { rest.split(',').map(|x| x.trim()).collect() };
        let bad = |what: &str| LoadErr::Harness(format!("line {line}: {what}: `{t}`"));
        let noenc = |what: String| LoadErr::Text(Viol::new(Class::Text, format!("line {line}: `{t}`: {what}")));
        let i = match mn {
            "add" | "sub" | "cmp" | "mov" => {
                if ops.len() != 2 {
                    return Err(bad("operand count"));
                }
                let a = parse_opnd(ops[0], line)?;
                let b = parse_opnd(ops[1], line)?;
                match (&a, &b) {
                    (Opnd::I(_), _) => return Err(noenc("immediate destination".into())),
                    (Opnd::M(..), Opnd::M(..)) => return Err(noenc("two memory operands".into())),
                    (Opnd::M(..), Opnd::I(i)) => {
                        if !qword {
                            return Err(noenc("memory/immediate form needs a size".into()));
                        }
                        if !fits32(*i) {
                            return Err(noenc(format!("immediate {i} does not fit the 32-bit immediate of this instruction form")));
                        }
                    }
                    (Opnd::R(_), Opnd::I(i)) => {
                        if mn != "mov" && !fits32(*i) {
                            return Err(noenc(format!("immediate {i} does not fit the 32-bit immediate of this instruction form")));
                        }
                    }
                    _ => {}
                }
                match mn {
                    "add" => Ins::Add(a, b),
                    "sub" => Ins::Sub(a, b),
                    "cmp" => Ins::Cmp(a, b),
                    _ => Ins::Mov(a, b),
                }
            }
            "imul" => {
                if ops.len() != 2 {
                    return Err(bad("operand count"));
                }
                let a = parse_opnd(ops[0], line)?;
                let b = parse_opnd(ops[1], line)?;
                match (a, b) {
                    (Opnd::R(r), b @ (Opnd::R(_) | Opnd::M(..))) => Ins::Imul(r, b),
                    _ => return Err(noenc("imul has no encoding with this operand combination".into())),
                }
            }
            "idiv" => {
                if ops.len() != 1 {
                    return Err(bad("operand count"));
                }
                let a = parse_opnd(ops[0], line)?;
                match a {
                    Opnd::R(_) => Ins::Idiv(a),
                    Opnd::M(..) if qword => Ins::Idiv(a),
                    _ => return Err(noenc("idiv operand".into())),
                }
            }
            "cqo" => Ins::Cqo,
            "jmp" => {
                if ops.len() != 1 {
                    return Err(bad("operand count"));
                }
                if let Some(l) = ops[0].strip_prefix("near ") {
                    fixups.push((ins.len(), l.trim().to_string(), line));
                    Ins::JmpNear(usize::MAX)
                } else if let Some(r) = reg(ops[0]) {
                    Ins::JmpR(r)
                } else {
                    fixups.push((ins.len(), ops[0].to_string(), line));
                    Ins::Jmp(usize::MAX)
                }
            }
            "je" | "jne" | "jl" | "jle" | "jg" | "jge" => {
                if ops.len() != 1 {
                    return Err(bad("operand count"));
                }
                let cc = match mn {
                    "je" => Cc::E,
                    "jne" => Cc::Ne,
                    "jl" => Cc::L,
                    "jle" => Cc::Le,
                    "jg" => Cc::G,
                    _ => Cc::Ge,
                };
                fixups.push((ins.len(), ops[0].to_string(), line));
                Ins::Jcc(cc, usize::MAX)
            }
            "lea" => {
                if ops.len() != 2 {
                    return Err(bad("operand count"));
                }
                let r = reg(ops[0]).ok_or_else(|| bad("lea destination"))?;
                let l = ops[1]
                    .strip_prefix("[rel ")
                    .and_then(|x| x.strip_suffix(']'))
                    .ok_or_else(|| bad("lea source"))?;
                fixups.push((ins.len(), l.trim().to_string(), line));
                Ins::Lea(r, usize::MAX)
            }
            "push" | "pop" => {
                if ops.len() != 1 {
                    return Err(bad("operand count"));
                }
                let r = reg(ops[0]).ok_or_else(|| bad("push/pop operand"))?;
                if mn == "push" { Ins::Push(r) } else { Ins::Pop(r) }
            }
            "call" => {
                if ops.len() != 1 {
                    return Err(bad("operand count"));
                }
                Ins::Call(ops[0].to_string())
            }
            "ret" => Ins::Ret,
            "nop" => Ins::Nop,
            "and" | "or" | "xor" | "test" | "xchg" => {
                if ops.len() != 2 {
                    return Err(bad("operand count"));
                }
                let a = parse_opnd(ops[0], line)?;
                let b = parse_opnd(ops[1], line)?;
                match (&a, &b) {
                    (Opnd::I(_), _) => return Err(noenc("immediate destination".into())),
                    (Opnd::M(..), Opnd::M(..)) => return Err(noenc("two memory operands".into())),
                    (Opnd::M(..), Opnd::I(i)) | (Opnd::R(_), Opnd::I(i)) => {
                        if mn == "xchg" {
                            return Err(noenc("xchg with an immediate".into()));
                        }
                        if matches!(a, Opnd::M(..)) && !qword {
                            return Err(noenc("memory/immediate form needs a size".into()));
                        }
                        if !fits32(*i) {
                            return Err(noenc(format!("immediate {i} does not fit the 32-bit immediate of this instruction form")));
                        }
                    }
                    _ => {}
                }
                match mn {
                    "and" => Ins::Logic(Lop::And, a, b),
                    "or" => Ins::Logic(Lop::Or, a, b),
                    "xor" => Ins::Logic(Lop::Xor, a, b),
                    "test" => Ins::Test(a, b),
                    _ => Ins::Xchg(a, b),
                }
            }
            "neg" | "not" | "inc" | "dec" => {
                if ops.len() != 1 {
                    return Err(bad("operand count"));
                }
                let a = parse_opnd(ops[0], line)?;
                match a {
                    Opnd::R(_) => {}
                    Opnd::M(..) if qword => {}
                    _ => return Err(noenc("operand of a one-operand instruction".into())),
                }
                Ins::Unary(match mn { "neg" => Uop::Neg, "not" => Uop::Not, "inc" => Uop::Inc, _ => Uop::Dec }, a)
            }
            "shl" | "sal" | "shr" | "sar" => {
                if ops.len() != 2 {
                    return Err(bad("operand count"));
                }
                let a = parse_opnd(ops[0], line)?;
                match a {
                    Opnd::R(_) => {}
                    Opnd::M(..) if qword => {}
                    _ => return Err(noenc("shift destination".into())),
                }
                let b = if ops[1] == "cl" {
                    Opnd::R(RCX)
                } else {
                    match parse_opnd(ops[1], line)? {
                        Opnd::I(i) if (0..64).contains(&i) => Opnd::I(i),
                        _ => return Err(noenc("shift count must be an immediate below 64 or cl".into())),
                    }
                };
                Ins::Shift(match mn { "shr" => Sop::Shr, "sar" => Sop::Sar, _ => Sop::Shl }, a, b)
            }
            "jz" | "jnz" | "js" | "jns" | "ja" | "jnbe" | "jae" | "jnb" | "jnc" | "jb" | "jc" | "jnae" | "jbe" | "jna" | "jnge" | "jnl" | "jng" | "jnle" => {
                if ops.len() != 1 {
                    return Err(bad("operand count"));
                }
                let cc = match mn {
                    "jz" => Cc::E,
                    "jnz" => Cc::Ne,
                    "js" => Cc::S,
                    "jns" => Cc::Ns,
                    "ja" | "jnbe" => Cc::A,
                    "jae" | "jnb" | "jnc" => Cc::Ae,
                    "jb" | "jc" | "jnae" => Cc::B,
                    "jbe" | "jna" => Cc::Be,
                    "jnge" => Cc::L,
                    "jnl" => Cc::Ge,
                    "jng" => Cc::Le,
                    _ => Cc::G,
                };
                fixups.push((ins.len(), ops[0].to_string(), line));
                Ins::Jcc(cc, usize::MAX)
            }
            // (mnemonics of this assembler syntax are spelled with these characters only)
            m if !m.chars().all(|c| c.is_ascii_lowercase() || c.is_ascii_digit()) => {
                return Err(LoadErr::Text(Viol::new(Class::Text, format!("line {line}: `{t}` is neither an instruction nor a label nor a directive"))));
            }
            _ => return Err(bad("unknown mnemonic")),
        };
        ins.push(i);
        src_line.push(line);
    }
    // a label may be followed only by zero-size entries until the next real instruction
    let n = ins.len();
    for (idx, l, line) in fixups {
        let tgt = *labels
            .get(&l)
            .ok_or_else(|| LoadErr::Text(Viol::new(Class::Text, format!("line {line}: undefined label `{l}`"))))?;
        match &mut ins[idx] {
            Ins::Jmp(t) | Ins::JmpNear(t) | Ins::Jcc(_, t) | Ins::Lea(_, t) => *t = tgt,
            _ => unreachable!(),
        }
    }
    for i in &ins {
        if let Ins::Call(s) = i {
            if !externs.contains(s) {
                return Err(LoadErr::Text(Viol::new(Class::Text, format!("call of undeclared symbol `{s}`"))));
            }
        }
    }
    // synthetic, stride-faithful addresses
    let mut addr = Vec::with_capacity(n + 1);
    let mut a = code_base;
    let mut n_real = 0;
    for i in &ins {
        addr.push(a);
        a += match i {
            Ins::Marker(_) | Ins::Probe(_) => 0,
            Ins::JmpNear(_) => 5,
            _ => 4,
        };
        if !matches!(i, Ins::Marker(_) | Ins::Probe(_)) {
            n_real += 1;
        }
    }
    addr.push(a);
    let entry = *labels
        .get("asm_main")
        .ok_or_else(|| LoadErr::Text(Viol::new(Class::Text, "no asm_main label")))?;
    Ok(Prog { ins, addr, src_line, labels, probe_names, entry, code_base, code_end: a, n_real })
}

#[derive(Clone, Copy, Debug)]
struct Flags {
    zf: bool,
    sf: bool,
    of: bool,
    cf: bool,
    u: u32,
}

struct Machine<'a> {
    p: &'a Prog,
    c: Core<'a>,
    regs: [V; 16],
    flags: Flags,
    entry_regs: [V; 16],
    pc: usize,
}

impl<'a> Machine<'a> {
    fn line(&self) -> usize {
        self.p.src_line[self.pc]
    }

    fn need(&self, v: V, what: &str) -> Res<u64> {
        self.c.need(v, what, self.line())
    }

    fn ea(&self, b: u8, d: i64) -> Res<u64> {
        let base = self.need(self.regs[b as usize], &format!("address formation via {}", REG_NAMES[b as usize]))?;
        Ok(base.wrapping_add(d as u64))
    }

    fn rd(&mut self, o: &Opnd) -> Res<V> {
        match o {
            Opnd::R(r) => Ok(self.regs[*r as usize]),
            Opnd::I(i) => Ok(V::d(*i as u64)),
            Opnd::M(b, d) => {
                let a = self.ea(*b, *d)?;
                let sp = self.regs[RSP as usize].v;
                let line = self.line();
                self.c.mem.load(a, sp, &format!("line {line}"))
            }
        }
    }

    fn wr(&mut self, o: &Opnd, v: V) -> Res<()> {
        match o {
            Opnd::R(r) => {
                self.regs[*r as usize] = v;
                Ok(())
            }
            Opnd::M(b, d) => {
                let a = self.ea(*b, *d)?;
                let sp = self.regs[RSP as usize].v;
                let line = self.line();
                self.c.mem.store(a, v, sp, &format!("line {line}"))
            }
            Opnd::I(_) => unreachable!(),
        }
    }

    fn set_flags_sub(&mut self, a: V, b: V) {
        let (x, y) = (a.v as i64, b.v as i64);
        let (r, of) = x.overflowing_sub(y);
        self.flags = Flags { zf: r == 0, sf: r < 0, of, cf: a.v < b.v, u: if a.u != 0 { a.u } else { b.u } };
    }

    fn set_flags_add(&mut self, a: V, b: V) {
        let (x, y) = (a.v as i64, b.v as i64);
        let (r, of) = x.overflowing_add(y);
        self.flags = Flags { zf: r == 0, sf: r < 0, of, cf: a.v.checked_add(b.v).is_none(), u: if a.u != 0 { a.u } else { b.u } };
    }

    fn addr_to_index(&self, a: u64) -> Option<usize> {
        if a < self.p.code_base || a >= self.p.code_end {
            return None;
        }
        // first entry with this address (zero-size markers/probes share the address of the
        // following real instruction, so control passes them)
        let i = self.p.addr.partition_point(|x| *x < a);
        if i < self.p.ins.len() && self.p.addr[i] == a { Some(i) } else { None }
    }

    /// position -> temporary, as documented for the x86-64 backend: registers from number 4 on,
    /// then spill slots counted from 1 (slot 0 is scratch), slot s at rsp + 2048 - 8(s+1)
    fn temp(&mut self, t: usize) -> Res<V> {
        let r = t + 4;
        if r < 16 {
            Ok(self.regs[r])
        } else {
            let s = r - 16 + 1;
            let sp = self.regs[RSP as usize].v;
            let a = sp.wrapping_add(2048).wrapping_sub(8 * (s as u64 + 1));
            self.c.mem.load(a, sp, "spill slot of a live variable")
        }
    }

    fn run(&mut self, entry_sp: u64) -> Res<i64> {
        let p = self.p;
        loop {
            if self.pc >= p.ins.len() {
                return Err(Viol::new(Class::BadJump, "control fell off the end of the text"));
            }
            let ins = &p.ins[self.pc];
            match ins {
                Ins::Probe(i) => {
                    self.c.probe_counts[*i] += 1;
                    self.pc += 1;
                    continue;
                }
                Ins::Marker(mk) => {
                    if self.c.opts.check_heap || self.c.snaps.len() < self.c.opts.record_snaps {
                        let mut temps = Vec::with_capacity(mk.env.len());
                        for pos in 0..mk.env.len() {
                            let a = self.temp(2 * pos)?;
                            let b = self.temp(2 * pos + 1)?;
                            temps.push((a, b));
                        }
                        let (h, f) = (self.regs[RBX as usize], self.regs[RBP as usize]);
                        self.c.marker(mk, self.pc, h, f, &temps);
                    } else {
                        self.c.out.markers += 1;
                    }
                    self.pc += 1;
                    continue;
                }
                _ => {}
            }
            self.c.out.steps += 1;
            if self.c.out.steps > self.c.opts.step_budget {
                return Err(Viol::new(Class::Progress, format!("step budget of {} instructions exhausted", self.c.opts.step_budget)));
            }
            let sp = self.regs[RSP as usize].v;
            if sp < self.c.mem.stack_lo + 64 || sp > entry_sp + 8 {
                return Err(Viol::new(Class::Confinement, format!("stack pointer left the stack region (entry_sp{:+})", sp as i64 - entry_sp as i64)));
            }
            let mut next = self.pc + 1;
            match ins {
                Ins::Mov(a, b) => {
                    let v = self.rd(b)?;
                    self.wr(a, v)?;
                }
                Ins::Add(a, b) => {
                    let x = self.rd(a)?;
                    let y = self.rd(b)?;
                    self.set_flags_add(x, y);
                    self.wr(a, V::combine(x.v.wrapping_add(y.v), x, y))?;
                }
                Ins::Sub(a, b) => {
                    let x = self.rd(a)?;
                    let y = self.rd(b)?;
                    self.set_flags_sub(x, y);
                    self.wr(a, V::combine(x.v.wrapping_sub(y.v), x, y))?;
                }
                Ins::Cmp(a, b) => {
                    let x = self.rd(a)?;
                    let y = self.rd(b)?;
                    self.set_flags_sub(x, y);
                }
                Ins::Imul(r, b) => {
                    let x = self.regs[*r as usize];
                    let y = self.rd(b)?;
                    self.regs[*r as usize] = V::combine((x.v as i64).wrapping_mul(y.v as i64) as u64, x, y);
                    let o = self.c.origin(OriginKind::ArchUndefFlags, "SF/ZF after imul".into());
                    self.flags.u = o;
                }
                Ins::Cqo => {
                    let a = self.regs[RAX as usize];
                    self.regs[RDX as usize] = V { v: if (a.v as i64) < 0 { u64::MAX } else { 0 }, u: a.u };
                }
                Ins::Idiv(s) => {
                    let dv = self.rd(s)?;
                    let d = self.need(dv, "idiv divisor")? as i64;
                    let lo = self.need(self.regs[RAX as usize], "idiv dividend (rax)")?;
                    let hi = self.need(self.regs[RDX as usize], "idiv dividend (rdx)")?;
                    if d == 0 {
                        return Err(Viol::new(Class::Trap, format!("#DE: division by zero at line {}", self.line())));
                    }
                    let n = (((hi as u128) << 64) | lo as u128) as i128;
                    let q = n / d as i128;
                    let r = n % d as i128;
                    if q > i64::MAX as i128 || q < i64::MIN as i128 {
                        return Err(Viol::new(Class::Trap, format!("#DE: quotient overflow at line {}", self.line())));
                    }
                    self.regs[RAX as usize] = V::d(q as i64 as u64);
                    self.regs[RDX as usize] = V::d(r as i64 as u64);
                    let o = self.c.origin(OriginKind::ArchUndefFlags, "flags after idiv".into());
                    self.flags.u = o;
                }
                Ins::Nop => {}
                Ins::Logic(op, a, b) => {
                    let x = self.rd(a)?;
                    let y = self.rd(b)?;
                    let r = match op {
                        Lop::And => x.v & y.v,
                        Lop::Or => x.v | y.v,
                        Lop::Xor => x.v ^ y.v,
                    };
                    // `xor r, r` is the zeroing idiom: the result does not depend on the old value
                    let v = if *op == Lop::Xor && a == b { V::d(0) } else { V::combine(r, x, y) };
                    self.flags = Flags { zf: r == 0, sf: (r as i64) < 0, of: false, cf: false, u: v.u };
                    self.wr(a, v)?;
                }
                Ins::Test(a, b) => {
                    let x = self.rd(a)?;
                    let y = self.rd(b)?;
                    let r = x.v & y.v;
                    self.flags = Flags { zf: r == 0, sf: (r as i64) < 0, of: false, cf: false, u: if x.u != 0 { x.u } else { y.u } };
                }
                Ins::Unary(op, a) => {
                    let x = self.rd(a)?;
                    match op {
                        Uop::Not => self.wr(a, V { v: !x.v, u: x.u })?,
                        Uop::Neg => {
                            self.set_flags_sub(V::d(0), x);
                            self.wr(a, V { v: x.v.wrapping_neg(), u: x.u })?;
                        }
                        Uop::Inc | Uop::Dec => {
                            // CF is left as it was
                            let cf = self.flags.cf;
                            if *op == Uop::Inc { self.set_flags_add(x, V::d(1)) } else { self.set_flags_sub(x, V::d(1)) }
                            self.flags.cf = cf;
                            let r = if *op == Uop::Inc { x.v.wrapping_add(1) } else { x.v.wrapping_sub(1) };
                            self.wr(a, V { v: r, u: x.u })?;
                        }
                    }
                }
                Ins::Shift(op, a, b) => {
                    let x = self.rd(a)?;
                    let cv = self.rd(b)?;
                    let n = self.need(cv, "shift count")? & 63;
                    if n != 0 {
                        let r = match op {
                            Sop::Shl => x.v << n,
                            Sop::Shr => x.v >> n,
                            Sop::Sar => ((x.v as i64) >> n) as u64,
                        };
                        let cf = match op {
                            Sop::Shl => (x.v >> (64 - n)) & 1 == 1,
                            _ => (x.v >> (n - 1)) & 1 == 1,
                        };
                        // OF is architecturally defined for single-bit shifts only
                        let of = match op {
                            Sop::Shl => ((r >> 63) & 1 == 1) != cf,
                            Sop::Shr => (x.v >> 63) & 1 == 1,
                            Sop::Sar => false,
                        };
                        self.flags = Flags { zf: r == 0, sf: (r as i64) < 0, of, cf, u: x.u };
                        self.wr(a, V { v: r, u: x.u })?;
                    }
                }
                Ins::Xchg(a, b) => {
                    let x = self.rd(a)?;
                    let y = self.rd(b)?;
                    self.wr(a, y)?;
                    self.wr(b, x)?;
                }
                Ins::Jmp(t) | Ins::JmpNear(t) => next = *t,
                Ins::Jcc(cc, t) => {
                    if self.flags.u != 0 {
                        return Err(self.c.undef_viol(self.flags.u, "conditional jump depends on undefined flags", self.line()));
                    }
                    let f = self.flags;
                    let take = match cc {
                        Cc::E => f.zf,
                        Cc::Ne => !f.zf,
                        Cc::L => f.sf != f.of,
                        Cc::Le => f.zf || f.sf != f.of,
                        Cc::G => !f.zf && f.sf == f.of,
                        Cc::Ge => f.sf == f.of,
                        Cc::S => f.sf,
                        Cc::Ns => !f.sf,
                        Cc::A => !f.cf && !f.zf,
                        Cc::Ae => !f.cf,
                        Cc::B => f.cf,
                        Cc::Be => f.cf || f.zf,
                    };
                    if take {
                        next = *t;
                    }
                }
                Ins::JmpR(r) => {
                    let a = self.need(self.regs[*r as usize], "indirect jump target")?;
                    next = self.addr_to_index(a).ok_or_else(|| {
                        Viol::new(
                            Class::BadJump,
                            format!("indirect jump at line {} to code_base{:+}, which is not the start of an instruction", self.line(), a as i64 - p.code_base as i64),
                        )
                    })?;
                }
                Ins::Lea(r, t) => {
                    self.regs[*r as usize] = V::d(p.addr[*t]);
                }
                Ins::Push(r) => {
                    let nsp = sp.wrapping_sub(8);
                    self.regs[RSP as usize] = V::d(nsp);
                    let v = self.regs[*r as usize];
                    self.c.mem.store(nsp, v, nsp, "push")?;
                }
                Ins::Pop(r) => {
                    let v = self.c.mem.load(sp, sp, "pop")?;
                    self.regs[*r as usize] = v;
                    if *r != RSP {
                        self.regs[RSP as usize] = V::d(sp.wrapping_add(8));
                    }
                }
                Ins::Call(sym) => {
                    let newline = match sym.as_str() {
                        "print_i64" => false,
                        "println_i64" => true,
                        _ => return Err(Viol::new(Class::Text, format!("call of unknown runtime symbol {sym}"))),
                    };
                    if sp % 16 != 0 {
                        self.c.soft(Viol::new(
                            Class::Align,
                            format!("call {sym} at line {} with rsp = entry_sp{:+}, not 16-byte aligned", self.line(), sp as i64 - entry_sp as i64),
                        ));
                    }
                    let a = self.need(self.regs[RDI as usize], &format!("argument of {sym} (rdi)"))?;
                    self.c.out.calls.push(CallEv { newline, arg: a as i64 });
                    if let Some(h) = self.c.opts.print_hook {
                        h(newline, a as i64);
                    }
                    self.c.log.add(0xca11 ^ a.rotate_left(7) ^ newline as u64);
                    self.c.out.faults.calls += 1;
                    let call_idx = self.c.call_idx;
                    let plan = self.c.plan;
                    // the processor itself writes the return address below the stack pointer,
                    // whatever the callee does afterwards
                    let ret = p.addr.get(self.pc + 1).copied().unwrap_or(p.code_end);
                    let _ = self.c.mem.poke_stack(sp.wrapping_sub(8), V::d(ret));
                    if plan.call_enabled(call_idx) {
                        if plan.e1_regs {
                            for r in CALLER_SAVED {
                                if plan.reg_enabled(r) {
                                    let o = self.c.origin(OriginKind::CallReg, format!("{} destroyed by call #{call_idx} ({sym})", REG_NAMES[r as usize]));
                                    self.regs[r as usize] = V { v: plan.garbage(0xe1_0000 + call_idx as u64, r as u64), u: o };
                                    self.c.out.faults.e1_regs_destroyed += 1;
                                }
                            }
                        }
                        if plan.e2_flags {
                            let o = self.c.origin(OriginKind::CallFlags, format!("flags destroyed by call #{call_idx} ({sym})"));
                            self.flags.u = o;
                            self.c.out.faults.e2_flags_destroyed += 1;
                        }
                        if plan.e3_depth > 0 {
                            let o = self.c.origin(OriginKind::CallStack, format!("stack below rsp overwritten by call #{call_idx} ({sym})"));
                            for i in 1..=plan.e3_depth as u64 {
                                let a = sp.wrapping_sub(8 * i);
                                if self.c.mem.poke_stack(a, V { v: plan.garbage(0xe3_0000 + call_idx as u64, i), u: o }) {
                                    self.c.out.faults.e3_stack_words += 1;
                                }
                            }
                        }
                    }
                    self.c.call_idx += 1;
                }
                Ins::Ret => {
                    let ra = self.c.mem.load(sp, sp, "ret")?;
                    let ra = self.need(ra, "return address")?;
                    if sp != entry_sp {
                        return Err(Viol::new(
                            Class::Abi,
                            format!("ret with rsp = entry_sp{:+}: stack pointer not restored", sp as i64 - entry_sp as i64),
                        ));
                    }
                    if ra != RET_SENTINEL {
                        return Err(Viol::new(Class::Abi, "ret does not return to the caller's return address"));
                    }
                    for r in CALLEE_SAVED {
                        let e = self.entry_regs[r as usize];
                        let c = self.regs[r as usize];
                        if e.v != c.v || (e.u == 0) != (c.u == 0) {
                            self.c.soft(Viol::new(
                                Class::Abi,
                                format!("callee-saved register {} not restored at return ({:#x} instead of {:#x})", REG_NAMES[r as usize], c.v, e.v),
                            ));
                        }
                    }
                    let res = self.need(self.regs[RAX as usize], "result in rax at return")?;
                    return Ok(res as i64);
                }
                Ins::Marker(_) | Ins::Probe(_) => unreachable!(),
            }
            self.pc = next;
        }
    }
}

pub fn exec(p: &Prog, args: &[i64], plan: &EnvPlan, opts: &ExecOpts) -> (ExecOutcome, Vec<Snap>) {
    // entry state per System V: rsp + 8 is 16-byte aligned, [rsp] holds the return address
    let entry_sp = (plan.stack_top & !0xf) - 8;
    let c = Core::new(plan, opts, entry_sp, 128, p.probe_names.len(), true);
    let mut m = Machine { p, c, regs: [V::d(0); 16], flags: Flags { zf: false, sf: false, of: false, cf: false, u: 0 }, entry_regs: [V::d(0); 16], pc: p.entry };
    if plan.e4_entry {
        for r in 0..16u8 {
            let kind = if CALLEE_SAVED.contains(&r) { OriginKind::EntryCalleeSaved } else { OriginKind::EntryScratch };
            let o = m.c.origin(kind, format!("{} at entry", REG_NAMES[r as usize]));
            m.regs[r as usize] = V { v: plan.garbage(0xe4, r as u64), u: o };
            m.c.out.faults.e4_entry_regs += 1;
        }
        let o = m.c.origin(OriginKind::EntryScratch, "flags at entry".into());
        m.flags.u = o;
    } else {
        for r in CALLEE_SAVED {
            m.regs[r as usize] = V::d(0xc0de_0000 + r as u64);
        }
    }
    m.regs[RSP as usize] = V::d(entry_sp);
    m.regs[RDI as usize] = V::d(plan.heap_base);
    if args.len() > 5 {
        return m.c.finish(Err(Viol::new(Class::Text, "more than five arguments")), &p.probe_names);
    }
    for (i, a) in args.iter().enumerate() {
        m.regs[ARG_REGS[i + 1] as usize] = V::d(*a as u64);
    }
    m.c.mem.poke_stack(entry_sp, V::d(RET_SENTINEL));
    m.entry_regs = m.regs;
    let r = m.run(entry_sp);
    m.c.finish(r, &p.probe_names)
}
