//! Emulator for the RISC-V pseudo-assembly printed by `axcut2rv64` (one instruction per line,
//! space-separated operands, `LW`/`SW` read as 64-bit accesses as C08 prescribes).

use crate::mach::*;
use std::collections::BTreeMap;

#[derive(Clone, Copy, Debug, PartialEq, Eq)]
pub enum Cc {
    Eq,
    Ne,
    Lt,
    Le,
    Gt,
    Ge,
}

#[derive(Clone, Copy, Debug, PartialEq)]
pub enum Alu {
    Divu,
    Remu,
    And,
    Or,
    Xor,
    Sll,
    Srl,
    Sra,
    Slt,
    Sltu,
    Mulh,
    Add,
}

fn alu(op: Alu, a: u64, b: u64) -> u64 {
    match op {
        Alu::Divu => if b == 0 { u64::MAX } else { a / b },
        Alu::Remu => if b == 0 { a } else { a % b },
        Alu::And => a & b,
        Alu::Or => a | b,
        Alu::Xor => a ^ b,
        Alu::Sll => a << (b & 63),
        Alu::Srl => a >> (b & 63),
        Alu::Sra => ((a as i64) >> (b & 63)) as u64,
        Alu::Slt => ((a as i64) < (b as i64)) as u64,
        Alu::Sltu => (a < b) as u64,
        Alu::Mulh => (((a as i64 as i128) * (b as i64 as i128)) >> 64) as u64,
        Alu::Add => a.wrapping_add(b),
    }
}

#[derive(Clone, Debug, PartialEq)]
pub enum Ins {
    Add(u8, u8, u8),
    Addi(u8, u8, i64),
    Sub(u8, u8, u8),
    Mul(u8, u8, u8),
    Div(u8, u8, u8),
    Rem(u8, u8, u8),
    /// further RV64IM register-register operations (not emitted by the pinned back end; accepted
    /// so that a change that starts using them is judged by its behaviour)
    Alu(Alu, u8, u8, u8),
    /// the same operations with a 12-bit immediate (shift amounts: 6 bits)
    AluI(Alu, u8, u8, i64),
    /// LUI rd, imm20: rd = sign-extend-32(imm20 << 12)
    Lui(u8, i64),
    /// unsigned branches
    BrU(bool, u8, u8, usize),
    Jal(u8, usize),
    Jalr(u8, u8, i64),
    La(u8, usize),
    Li(u8, i64),
    Mv(u8, u8),
    Lw(u8, i64, u8),
    Sw(u8, i64, u8),
    Br(Cc, u8, u8, usize),
    Marker(Marker),
    Probe(usize),
}

pub struct Prog {
    pub ins: Vec<Ins>,
    pub addr: Vec<u64>,
    pub src_line: Vec<usize>,
    pub labels: BTreeMap<String, usize>,
    pub probe_names: Vec<String>,
    pub entry: usize,
    pub cleanup: usize,
    pub code_base: u64,
    pub code_end: u64,
}

fn reg(s: &str) -> Option<u8> {
    let n: u8 = s.strip_prefix('X')?.parse().ok()?;
    if n < 32 { Some(n) } else { None }
}

pub fn load(text: &str, code_base: u64) -> Result<Prog, LoadErr> {
    let mut ins: Vec<Ins> = Vec::new();
    let mut src_line = Vec::new();
    let mut labels: BTreeMap<String, usize> = BTreeMap::new();
    let mut first_label: Option<usize> = None;
    let mut fixups: Vec<(usize, String, usize)> = Vec::new();
    let mut probe_names: Vec<String> = Vec::new();
    let mut probe_idx: BTreeMap<String, usize> = BTreeMap::new();
    for (ln0, raw) in text.lines().enumerate() {
        let line = ln0 + 1;
        let t = raw.trim();
        if t.is_empty() {
            continue;
        }
        if let Some(c) = t.strip_prefix("//") {
            let c = c.trim();
            if let Some(m) = parse_marker(c) {
                ins.push(Ins::Marker(m));
                src_line.push(line);
            } else if c.starts_with("@env") {
                return Err(LoadErr::Harness(format!("line {line}: malformed marker `{c}`")));
            } else if c.starts_with('#') {
                let k = probe_key(c);
                let i = *probe_idx.entry(k.clone()).or_insert_with(|| {
                    probe_names.push(k);
                    probe_names.len() - 1
                });
                ins.push(Ins::Probe(i));
                src_line.push(line);
            }
            continue;
        }
        if let Some(l) = t.strip_suffix(':') {
            if l.contains(char::is_whitespace) {
                // no assembler accepts white space inside a symbol
                return Err(LoadErr::Text(Viol::new(Class::Text, format!("line {line}: label `{l}` contains white space"))));
            }
            if labels.insert(l.to_string(), ins.len()).is_some() {
                return Err(LoadErr::Text(Viol::new(Class::Text, format!("line {line}: label `{l}` defined twice"))));
            }
            if first_label.is_none() {
                first_label = Some(ins.len());
            }
            continue;
        }
        // a line with unbalanced brackets is not acceptable to any assembler (e.g. a symbol that was
        // broken across two lines)
        if t.matches('[').count() != t.matches(']').count() || t.matches('(').count() != t.matches(')').count() {
            return Err(LoadErr::Text(Viol::new(Class::Text, format!("line {line}: `{t}` has unbalanced brackets"))));
        }
        let toks: Vec<&str> = t.split_whitespace().collect();
        let bad = |what: &str| LoadErr::Harness(format!("line {line}: {what}: `{t}`"));
        let noenc = |what: String| LoadErr::Text(Viol::new(Class::Text, format!("line {line}: `{t}`: {what}")));
        let r = |i: usize| -> Result<u8, LoadErr> { toks.get(i).and_then(|s| reg(s)).ok_or_else(|| bad("register operand")) };
        let imm = |i: usize| -> Result<i64, LoadErr> { toks.get(i).and_then(|s| s.parse().ok()).ok_or_else(|| bad("immediate operand")) };
        let imm12 = |v: i64| -> Result<i64, LoadErr> {
            if (-2048..=2047).contains(&v) { Ok(v) } else { Err(noenc(format!("immediate {v} does not fit 12 bits"))) }
        };
        let i = match toks[0] {
            "ADD" => {
                if toks.len() != 4 {
                    return Err(bad("operand count"));
                }
                match reg(toks[3]) {
                    Some(z) => Ins::Add(r(1)?, r(2)?, z),
                    None => Ins::Addi(r(1)?, r(2)?, imm12(imm(3)?)?),
                }
            }
            "SUB" | "MUL" | "DIV" | "REM" => {
                if toks.len() != 4 {
                    return Err(bad("operand count"));
                }
                let (x, y, z) = (r(1)?, r(2)?, r(3)?);
                match toks[0] {
                    "SUB" => Ins::Sub(x, y, z),
                    "MUL" => Ins::Mul(x, y, z),
                    "DIV" => Ins::Div(x, y, z),
                    _ => Ins::Rem(x, y, z),
                }
            }
            "JAL" => {
                if toks.len() != 3 {
                    return Err(bad("operand count"));
                }
                fixups.push((ins.len(), toks[2].to_string(), line));
                Ins::Jal(r(1)?, usize::MAX)
            }
            "JALR" => {
                if toks.len() != 4 {
                    return Err(bad("operand count"));
                }
                Ins::Jalr(r(1)?, r(2)?, imm12(imm(3)?)?)
            }
            "LA" => {
                if toks.len() != 3 {
                    return Err(bad("operand count"));
                }
                fixups.push((ins.len(), toks[2].to_string(), line));
                Ins::La(r(1)?, usize::MAX)
            }
            "LI" => {
                if toks.len() != 3 {
                    return Err(bad("operand count"));
                }
                Ins::Li(r(1)?, imm(2)?)
            }
            "MV" => {
                if toks.len() != 3 {
                    return Err(bad("operand count"));
                }
                Ins::Mv(r(1)?, r(2)?)
            }
            "LW" | "SW" => {
                if toks.len() != 4 {
                    return Err(bad("operand count"));
                }
                let (x, off, b) = (r(1)?, imm12(imm(2)?)?, r(3)?);
                if toks[0] == "LW" { Ins::Lw(x, off, b) } else { Ins::Sw(x, off, b) }
            }
            "BEQ" | "BNE" | "BLT" | "BLE" | "BGT" | "BGE" => {
                if toks.len() != 4 {
                    return Err(bad("operand count"));
                }
                let cc = match toks[0] {
                    "BEQ" => Cc::Eq,
                    "BNE" => Cc::Ne,
                    "BLT" => Cc::Lt,
                    "BLE" => Cc::Le,
                    "BGT" => Cc::Gt,
                    _ => Cc::Ge,
                };
                fixups.push((ins.len(), toks[3].to_string(), line));
                Ins::Br(cc, r(1)?, r(2)?, usize::MAX)
            }
            "DIVU" | "REMU" | "AND" | "OR" | "XOR" | "SLL" | "SRL" | "SRA" | "SLT" | "SLTU" | "MULH" => {
                if toks.len() != 4 {
                    return Err(bad("operand count"));
                }
                let op = match toks[0] {
                    "DIVU" => Alu::Divu,
                    "REMU" => Alu::Remu,
                    "AND" => Alu::And,
                    "OR" => Alu::Or,
                    "XOR" => Alu::Xor,
                    "SLL" => Alu::Sll,
                    "SRL" => Alu::Srl,
                    "SRA" => Alu::Sra,
                    "SLT" => Alu::Slt,
                    "SLTU" => Alu::Sltu,
                    _ => Alu::Mulh,
                };
                Ins::Alu(op, r(1)?, r(2)?, r(3)?)
            }
            "ADDI" | "ANDI" | "ORI" | "XORI" | "SLTI" | "SLTIU" | "SLLI" | "SRLI" | "SRAI" => {
                if toks.len() != 4 {
                    return Err(bad("operand count"));
                }
                let v = imm(3)?;
                let (op, v) = match toks[0] {
                    "ADDI" => (Alu::Add, imm12(v)?),
                    "ANDI" => (Alu::And, imm12(v)?),
                    "ORI" => (Alu::Or, imm12(v)?),
                    "XORI" => (Alu::Xor, imm12(v)?),
                    "SLTI" => (Alu::Slt, imm12(v)?),
                    "SLTIU" => (Alu::Sltu, imm12(v)?),
                    sh => {
                        if !(0..64).contains(&v) {
                            return Err(noenc(format!("shift amount {v} out of range")));
                        }
                        (if sh == "SLLI" { Alu::Sll } else if sh == "SRLI" { Alu::Srl } else { Alu::Sra }, v)
                    }
                };
                Ins::AluI(op, r(1)?, r(2)?, v)
            }
            "LUI" => {
                if toks.len() != 3 {
                    return Err(bad("operand count"));
                }
                let v = imm(2)?;
                if !(0..(1 << 20)).contains(&v) {
                    return Err(noenc(format!("immediate {v} does not fit 20 bits")));
                }
                Ins::Lui(r(1)?, v)
            }
            "NEG" | "NOT" | "SEQZ" | "SNEZ" => {
                if toks.len() != 3 {
                    return Err(bad("operand count"));
                }
                match toks[0] {
                    "NEG" => Ins::Sub(r(1)?, 0, r(2)?),
                    "NOT" => Ins::AluI(Alu::Xor, r(1)?, r(2)?, -1),
                    "SEQZ" => Ins::AluI(Alu::Sltu, r(1)?, r(2)?, 1),
                    _ => Ins::Alu(Alu::Sltu, r(1)?, 0, r(2)?),
                }
            }
            "BLTU" | "BGEU" => {
                if toks.len() != 4 {
                    return Err(bad("operand count"));
                }
                fixups.push((ins.len(), toks[3].to_string(), line));
                Ins::BrU(toks[0] == "BLTU", r(1)?, r(2)?, usize::MAX)
            }
            "BEQZ" | "BNEZ" | "BLTZ" | "BGEZ" | "BGTZ" | "BLEZ" => {
                if toks.len() != 3 {
                    return Err(bad("operand count"));
                }
                let cc = match toks[0] {
                    "BEQZ" => Cc::Eq,
                    "BNEZ" => Cc::Ne,
                    "BLTZ" => Cc::Lt,
                    "BGEZ" => Cc::Ge,
                    "BGTZ" => Cc::Gt,
                    _ => Cc::Le,
                };
                fixups.push((ins.len(), toks[2].to_string(), line));
                Ins::Br(cc, r(1)?, 0, usize::MAX)
            }
            "J" => {
                if toks.len() != 2 {
                    return Err(bad("operand count"));
                }
                fixups.push((ins.len(), toks[1].to_string(), line));
                Ins::Jal(0, usize::MAX)
            }
            // (mnemonics of this assembler syntax are spelled with these characters only)
            m if !m.chars().all(|c| c.is_ascii_uppercase() || c.is_ascii_digit() || c == '.') => {
                return Err(LoadErr::Text(Viol::new(Class::Text, format!("line {line}: `{t}` is neither an instruction nor a label nor a directive"))));
            }
            _ => return Err(bad("unknown mnemonic")),
        };
        ins.push(i);
        src_line.push(line);
    }
    for (idx, l, line) in fixups {
        let tgt = *labels
            .get(&l)
            .ok_or_else(|| LoadErr::Text(Viol::new(Class::Text, format!("line {line}: undefined label `{l}`"))))?;
        match &mut ins[idx] {
            Ins::Jal(_, t) | Ins::La(_, t) | Ins::Br(_, _, _, t) | Ins::BrU(_, _, _, t) => *t = tgt,
            _ => unreachable!(),
        }
    }
    let mut addr = Vec::with_capacity(ins.len() + 1);
    let mut a = code_base;
    for i in &ins {
        addr.push(a);
        a += match i {
            Ins::Marker(_) | Ins::Probe(_) => 0,
            _ => 4,
        };
    }
    addr.push(a);
    let entry = first_label.ok_or_else(|| LoadErr::Text(Viol::new(Class::Text, "no label")))?;
    // the exit point: the label `cleanup` of the pinned back end or, under any other spelling, the
    // label that stands at the very end of the text (nothing but the end follows it)
    let cleanup = match labels.get("cleanup") {
        Some(c) => *c,
        None => *labels.values().find(|i| **i == ins.len()).ok_or_else(|| LoadErr::Text(Viol::new(Class::Text, "no exit label at the end of the text")))?,
    };
    Ok(Prog { ins, addr, src_line, labels, probe_names, entry, cleanup, code_base, code_end: a })
}

struct Machine<'a> {
    p: &'a Prog,
    c: Core<'a>,
    regs: [V; 32],
    pc: usize,
}

impl<'a> Machine<'a> {
    fn line(&self) -> usize {
        self.p.src_line[self.pc.min(self.p.src_line.len() - 1)]
    }
    fn get(&self, r: u8) -> V {
        if r == 0 { V::d(0) } else { self.regs[r as usize] }
    }
    fn set(&mut self, r: u8, v: V) {
        if r != 0 {
            self.regs[r as usize] = v;
        }
    }
    fn need(&self, v: V, what: &str) -> Res<u64> {
        self.c.need(v, what, self.line())
    }
    fn addr_to_index(&self, a: u64) -> Option<usize> {
        if a < self.p.code_base || a > self.p.code_end {
            return None;
        }
        let i = self.p.addr.partition_point(|x| *x < a);
        if i <= self.p.ins.len() && self.p.addr[i] == a { Some(i) } else { None }
    }

    fn run(&mut self) -> Res<i64> {
        let p = self.p;
        loop {
            if self.pc == p.cleanup {
                let res = self.need(self.regs[10], "result in X10 at the exit point")?;
                return Ok(res as i64);
            }
            if self.pc >= p.ins.len() {
                return Err(Viol::new(Class::BadJump, "control fell off the end of the text"));
            }
            let ins = &p.ins[self.pc];
            match ins {
                Ins::Probe(i) => {
                    self.c.probe_counts[*i] += 1;
                    self.pc += 1;
                    continue;
                }
                Ins::Marker(mk) => {
                    if self.c.opts.check_heap || self.c.snaps.len() < self.c.opts.record_snaps {
                        let mut temps = Vec::with_capacity(mk.env.len());
                        for pos in 0..mk.env.len() {
                            if 5 + 2 * pos >= 32 {
                                return Err(Viol::new(Class::Text, "marker environment exceeds the register file"));
                            }
                            temps.push((self.regs[4 + 2 * pos], self.regs[5 + 2 * pos]));
                        }
                        let (h, f) = (self.regs[2], self.regs[3]);
                        self.c.marker(mk, self.pc, h, f, &temps);
                    } else {
                        self.c.out.markers += 1;
                    }
                    self.pc += 1;
                    continue;
                }
                _ => {}
            }
            self.c.out.steps += 1;
            if self.c.out.steps > self.c.opts.step_budget {
                return Err(Viol::new(Class::Progress, format!("step budget of {} instructions exhausted", self.c.opts.step_budget)));
            }
            let mut next = self.pc + 1;
            match ins {
                Ins::Add(d, a, b) => {
                    let (x, y) = (self.get(*a), self.get(*b));
                    self.set(*d, V::combine(x.v.wrapping_add(y.v), x, y));
                }
                Ins::Addi(d, a, i) => {
                    let x = self.get(*a);
                    self.set(*d, V { v: x.v.wrapping_add(*i as u64), u: x.u });
                }
                Ins::Sub(d, a, b) => {
                    let (x, y) = (self.get(*a), self.get(*b));
                    self.set(*d, V::combine(x.v.wrapping_sub(y.v), x, y));
                }
                Ins::Mul(d, a, b) => {
                    let (x, y) = (self.get(*a), self.get(*b));
                    self.set(*d, V::combine(x.v.wrapping_mul(y.v), x, y));
                }
                Ins::Div(d, a, b) => {
                    let (x, y) = (self.get(*a), self.get(*b));
                    let (n, m) = (x.v as i64, y.v as i64);
                    let q = if m == 0 { -1 } else { n.wrapping_div(m) };
                    self.set(*d, V::combine(q as u64, x, y));
                }
                Ins::Rem(d, a, b) => {
                    let (x, y) = (self.get(*a), self.get(*b));
                    let (n, m) = (x.v as i64, y.v as i64);
                    let r = if m == 0 { n } else { n.wrapping_rem(m) };
                    self.set(*d, V::combine(r as u64, x, y));
                }
                Ins::Alu(op, d, a, b) => {
                    let (x, y) = (self.get(*a), self.get(*b));
                    self.set(*d, V::combine(alu(*op, x.v, y.v), x, y));
                }
                Ins::AluI(op, d, a, i) => {
                    let x = self.get(*a);
                    self.set(*d, V { v: alu(*op, x.v, *i as u64), u: x.u });
                }
                Ins::Lui(d, i) => self.set(*d, V::d(((*i << 12) as i32) as i64 as u64)),
                Ins::BrU(lt, a, b, t) => {
                    let x = self.need(self.get(*a), "branch operand")?;
                    let y = self.need(self.get(*b), "branch operand")?;
                    if (x < y) == *lt {
                        next = *t;
                    }
                }
                Ins::Jal(d, t) => {
                    self.set(*d, V::d(p.addr[self.pc] + 4));
                    next = *t;
                }
                Ins::Jalr(d, b, i) => {
                    let a = self.need(self.get(*b), "indirect jump target")?.wrapping_add(*i as u64);
                    let here = p.addr[self.pc] + 4;
                    next = self.addr_to_index(a).ok_or_else(|| {
                        Viol::new(
                            Class::BadJump,
                            format!("indirect jump at line {} to code_base{:+}, which is not the start of an instruction", self.line(), a as i64 - p.code_base as i64),
                        )
                    })?;
                    self.set(*d, V::d(here));
                }
                Ins::La(d, t) => self.set(*d, V::d(p.addr[*t])),
                Ins::Li(d, i) => self.set(*d, V::d(*i as u64)),
                Ins::Mv(d, s) => {
                    let v = self.get(*s);
                    self.set(*d, v);
                }
                Ins::Lw(x, off, b) => {
                    let base = self.need(self.get(*b), &format!("address formation via X{b}"))?;
                    let line = self.line();
                    let v = self.c.mem.load(base.wrapping_add(*off as u64), 0, &format!("line {line}"))?;
                    self.set(*x, v);
                }
                Ins::Sw(x, off, b) => {
                    let base = self.need(self.get(*b), &format!("address formation via X{b}"))?;
                    let line = self.line();
                    let v = self.get(*x);
                    self.c.mem.store(base.wrapping_add(*off as u64), v, 0, &format!("line {line}"))?;
                }
                Ins::Br(cc, a, b, t) => {
                    let x = self.need(self.get(*a), "branch operand")? as i64;
                    let y = self.need(self.get(*b), "branch operand")? as i64;
                    let take = match cc {
                        Cc::Eq => x == y,
                        Cc::Ne => x != y,
                        Cc::Lt => x < y,
                        Cc::Le => x <= y,
                        Cc::Gt => x > y,
                        Cc::Ge => x >= y,
                    };
                    if take {
                        next = *t;
                    }
                }
                Ins::Marker(_) | Ins::Probe(_) => unreachable!(),
            }
            self.pc = next;
        }
    }
}

/// Start at the first label with X2 = heap, X3 = heap + 64 and main's parameters in the second
/// temporaries of positions 0, 1, ... (X5, X7, ...), as C08 prescribes.
pub fn exec(p: &Prog, args: &[i64], plan: &EnvPlan, opts: &ExecOpts) -> (ExecOutcome, Vec<Snap>) {
    let c = Core::new(plan, opts, plan.stack_top & !0xf, 0, p.probe_names.len(), false);
    let mut m = Machine { p, c, regs: [V::d(0); 32], pc: p.entry };
    if plan.e4_entry {
        for r in 1..32u8 {
            let o = m.c.origin(OriginKind::EntryScratch, format!("X{r} at entry"));
            m.regs[r as usize] = V { v: plan.garbage(0xe4, r as u64), u: o };
            m.c.out.faults.e4_entry_regs += 1;
        }
    }
    m.regs[2] = V::d(plan.heap_base);
    m.regs[3] = V::d(plan.heap_base + 64);
    if args.len() > 14 {
        return m.c.finish(Err(Viol::new(Class::Text, "too many arguments")), &p.probe_names);
    }
    for (i, a) in args.iter().enumerate() {
        m.regs[5 + 2 * i] = V::d(*a as u64);
    }
    let r = m.run();
    m.c.finish(r, &p.probe_names)
}
