//! Generator-side reference: the source semantics evaluated directly on the tree the generator
//! built (`fungen::E`), without the repository's parser, checker or any later stage. A difference
//! between this machine and `funref` (which runs on the parsed and checked AST) means that the
//! front end read the program text as something else than what was written: operator or
//! comparison sugar, clause order, instantiation, scoping.
//!
//! Same semantics as `funref`: 64-bit wrapping arithmetic, truncating division, eager integers
//! and data, by-name codata (thunks re-evaluated at every use), call/constructor/destructor
//! arguments left to right, destructor arguments before the scrutinee, first-class re-enterable
//! labels, immediate termination on exit.

use crate::fungen::{library, Decl, FunTree, Op, E, T, TT};
use crate::funref::{render_i64, FunEnd, FunOutcome};
use std::rc::Rc;

#[derive(Clone)]
enum V {
    Int(i64),
    Data(Rc<(String, Vec<V>)>),
    Codata(Rc<Clo>),
    /// the prelude's `repeat0(x)`: head = x, tail = itself
    Repeat0(i64),
    Cont(K),
    Thunk(Rc<E>, Env),
}

struct Clo {
    clauses: Vec<(String, Vec<usize>, Rc<E>)>,
    env: Env,
}

#[derive(Clone)]
struct Env(Option<Rc<EnvNode>>);

struct EnvNode {
    id: usize,
    val: V,
    next: Env,
}

impl Env {
    fn bind(&self, id: usize, val: V) -> Env {
        Env(Some(Rc::new(EnvNode { id, val, next: self.clone() })))
    }
    fn get(&self, id: usize) -> Option<V> {
        let mut cur = &self.0;
        while let Some(n) = cur {
            if n.id == id {
                return Some(n.val.clone());
            }
            cur = &n.next.0;
        }
        None
    }
}

#[derive(Clone)]
struct K(Rc<Frame>);

enum What {
    Call(usize),
    Ctor(String),
    /// scrutinee, destructor name
    Dtor(Rc<E>, String),
}

enum Frame {
    Top,
    OpL(Op, Rc<E>, Env, K),
    OpR(Op, i64, K),
    IfFst(usize, Option<Rc<E>>, Rc<E>, Rc<E>, Env, K),
    IfSnd(usize, i64, Rc<E>, Rc<E>, Env, K),
    Print(bool, Rc<E>, Env, K),
    Let(usize, Rc<E>, Env, K),
    /// what, evaluated so far, all argument terms, by-name flags, index being evaluated
    Args(Rc<What>, Vec<V>, Rc<Vec<Rc<E>>>, Rc<Vec<bool>>, usize, Env, K),
    Case(Rc<Vec<(String, Vec<usize>, Rc<E>)>>, Env, K),
    DtorApply(String, Vec<V>, K),
    Exit,
}

enum State {
    Eval(Rc<E>, Env, K),
    Ret(V, K),
}

fn inst(t: &TT, args: &[T]) -> T {
    match t {
        TT::I | TT::K => T::I,
        TT::P(i) => args[*i].clone(),
        TT::D(n, a) => T::D(n.to_string(), a.iter().map(|x| inst(x, args)).collect()),
    }
}

struct M<'a> {
    lib: Vec<Decl>,
    tree: &'a FunTree,
    bodies: Vec<Rc<E>>,
}

impl M<'_> {
    fn is_codata(&self, t: &T) -> bool {
        match t {
            T::I => false,
            T::D(n, _) => self.lib.iter().any(|d| d.name == n && d.codata),
        }
    }
    /// by-name flags of the arguments of xtor `x` of the declared type `t`
    fn xtor_flags(&self, t: &T, x: &str) -> Result<Vec<bool>, String> {
        let T::D(n, targs) = t else { return Err(format!("xtor {x} of a non-declared type")) };
        let d = self.lib.iter().find(|d| d.name == n).ok_or_else(|| format!("unknown type {n}"))?;
        let sig = d.xtors.iter().find(|s| s.0 == x).ok_or_else(|| format!("type {n} has no xtor {x}"))?;
        Ok(sig.1.iter().map(|a| self.is_codata(&inst(a, targs))).collect())
    }
}

fn rc(e: &E) -> Rc<E> {
    Rc::new(e.clone())
}

fn int(v: &V) -> Result<i64, FunEnd> {
    match v {
        V::Int(i) => Ok(*i),
        _ => Err(FunEnd::Stuck("generator-side reference: expected an integer".into())),
    }
}

pub fn run(tree: &FunTree, args: &[i64], budget: u64) -> FunOutcome {
    let mut out = FunOutcome { stdout: Vec::new(), prints: Vec::new(), end: FunEnd::Budget, steps: 0 };
    let m = M { lib: library(), tree, bodies: tree.bodies.iter().map(rc).collect() };
    let Some(main) = tree.sigs.first() else {
        out.end = FunEnd::Stuck("no main".into());
        return out;
    };
    if main.params.len() != args.len() {
        out.end = FunEnd::Stuck("argument count".into());
        return out;
    }
    let mut env = Env(None);
    for ((id, _, _), a) in main.params.iter().zip(args) {
        env = env.bind(*id, V::Int(*a));
    }
    let mut st = State::Eval(m.bodies[0].clone(), env, K(Rc::new(Frame::Top)));
    let r: Result<i64, FunEnd> = (|| loop {
        out.steps += 1;
        if out.steps > budget {
            return Err(FunEnd::Budget);
        }
        let stuck = |s: &str| FunEnd::Stuck(format!("generator-side reference: {s}"));
        st = match std::mem::replace(&mut st, State::Ret(V::Int(0), K(Rc::new(Frame::Top)))) {
            State::Eval(e, env, k) => match &*e {
                E::Lit(v) => State::Ret(V::Int(*v), k),
                E::Var(x) => match env.get(*x) {
                    Some(V::Thunk(t, e2)) => State::Eval(t, e2, k),
                    Some(v) => State::Ret(v, k),
                    None => return Err(stuck(&format!("unbound binder {x}"))),
                },
                E::Op(a, op, b) => State::Eval(rc(a), env.clone(), K(Rc::new(Frame::OpL(*op, rc(b), env, k)))),
                E::If(sort, c, snd, a, b) => {
                    State::Eval(rc(c), env.clone(), K(Rc::new(Frame::IfFst(*sort, snd.as_ref().map(|s| rc(s)), rc(a), rc(b), env, k))))
                }
                E::Let(x, t, b, body) => {
                    if m.is_codata(t) {
                        let th = V::Thunk(rc(b), env.clone());
                        State::Eval(rc(body), env.bind(*x, th), k)
                    } else {
                        State::Eval(rc(b), env.clone(), K(Rc::new(Frame::Let(*x, rc(body), env, k))))
                    }
                }
                E::Call(d, es) => {
                    let flags: Vec<bool> = if *d == usize::MAX {
                        vec![false]
                    } else {
                        let Some(sig) = m.tree.sigs.get(*d) else { return Err(stuck("call of an unknown definition")) };
                        // covariable parameters receive a label (a value), never a thunk
                        sig.params.iter().map(|(_, t, cv)| !*cv && m.is_codata(t)).collect()
                    };
                    if flags.len() != es.len() {
                        return Err(stuck("call: argument count"));
                    }
                    args_step(&m, Rc::new(What::Call(*d)), Vec::new(), Rc::new(es.iter().map(rc).collect()), Rc::new(flags), 0, env, k)?
                }
                E::Ctor(n, es, t) => {
                    let flags = m.xtor_flags(t, n).map_err(|s| stuck(&s))?;
                    if flags.len() != es.len() {
                        return Err(stuck("constructor: argument count"));
                    }
                    args_step(&m, Rc::new(What::Ctor(n.clone())), Vec::new(), Rc::new(es.iter().map(rc).collect()), Rc::new(flags), 0, env, k)?
                }
                E::Dtor(sc, t, n, es) => {
                    let flags = m.xtor_flags(t, n).map_err(|s| stuck(&s))?;
                    if flags.len() != es.len() {
                        return Err(stuck("destructor: argument count"));
                    }
                    args_step(&m, Rc::new(What::Dtor(rc(sc), n.clone())), Vec::new(), Rc::new(es.iter().map(rc).collect()), Rc::new(flags), 0, env, k)?
                }
                E::Case(sc, _, cls) => {
                    let cls: Vec<(String, Vec<usize>, Rc<E>)> = cls.iter().map(|(n, ids, b)| (n.clone(), ids.clone(), rc(b))).collect();
                    State::Eval(rc(sc), env.clone(), K(Rc::new(Frame::Case(Rc::new(cls), env, k))))
                }
                E::New(cls) => {
                    let clauses = cls.iter().map(|(n, ids, b)| (n.clone(), ids.clone(), rc(b))).collect();
                    State::Ret(V::Codata(Rc::new(Clo { clauses, env })), k)
                }
                E::Label(l, b) => {
                    let env2 = env.bind(*l, V::Cont(k.clone()));
                    State::Eval(rc(b), env2, k)
                }
                E::Goto(l, b) => match env.get(*l) {
                    Some(V::Cont(k2)) => State::Eval(rc(b), env, k2),
                    _ => return Err(stuck("goto: unbound label")),
                },
                E::Print(nl, a, next) => State::Eval(rc(a), env.clone(), K(Rc::new(Frame::Print(*nl, rc(next), env, k)))),
                E::Exit(a) => State::Eval(rc(a), env, K(Rc::new(Frame::Exit))),
            },
            State::Ret(v, k) => match &*k.0 {
                Frame::Top | Frame::Exit => return int(&v),
                Frame::OpL(op, b, env, k2) => {
                    let a = int(&v)?;
                    State::Eval(b.clone(), env.clone(), K(Rc::new(Frame::OpR(*op, a, k2.clone()))))
                }
                Frame::OpR(op, a, k2) => {
                    let b = int(&v)?;
                    let a = *a;
                    let r = match op {
                        Op::Add => a.wrapping_add(b),
                        Op::Sub => a.wrapping_sub(b),
                        Op::Mul => a.wrapping_mul(b),
                        Op::Div | Op::Rem => {
                            if b == 0 {
                                return Err(FunEnd::Undefined("division by zero".into()));
                            }
                            if a == i64::MIN && b == -1 {
                                return Err(FunEnd::Undefined("overflowing division".into()));
                            }
                            if *op == Op::Div { a / b } else { a % b }
                        }
                    };
                    State::Ret(V::Int(r), k2.clone())
                }
                Frame::IfFst(sort, snd, a, b, env, k2) => {
                    let x = int(&v)?;
                    match snd {
                        Some(s) => State::Eval(s.clone(), env.clone(), K(Rc::new(Frame::IfSnd(*sort, x, a.clone(), b.clone(), env.clone(), k2.clone())))),
                        None => State::Eval(if holds(*sort, x, 0) { a.clone() } else { b.clone() }, env.clone(), k2.clone()),
                    }
                }
                Frame::IfSnd(sort, x, a, b, env, k2) => {
                    let y = int(&v)?;
                    State::Eval(if holds(*sort, *x, y) { a.clone() } else { b.clone() }, env.clone(), k2.clone())
                }
                Frame::Print(nl, next, env, k2) => {
                    let a = int(&v)?;
                    render_i64(&mut out.stdout, *nl, a);
                    out.prints.push((*nl, a));
                    State::Eval(next.clone(), env.clone(), k2.clone())
                }
                Frame::Let(x, body, env, k2) => State::Eval(body.clone(), env.bind(*x, v), k2.clone()),
                Frame::Args(what, done, rest, flags, idx, env, k2) => {
                    let mut done = done.clone();
                    done.push(v);
                    args_step(&m, what.clone(), done, rest.clone(), flags.clone(), *idx + 1, env.clone(), k2.clone())?
                }
                Frame::Case(cls, env, k2) => {
                    let V::Data(d) = &v else { return Err(stuck("case: not data")) };
                    let Some((_, ids, body)) = cls.iter().find(|c| c.0 == d.0) else { return Err(stuck("case: no clause")) };
                    if ids.len() != d.1.len() {
                        return Err(stuck("case: binder count"));
                    }
                    let mut e2 = env.clone();
                    for (id, val) in ids.iter().zip(d.1.iter()) {
                        e2 = e2.bind(*id, val.clone());
                    }
                    State::Eval(body.clone(), e2, k2.clone())
                }
                Frame::DtorApply(name, done, k2) => match &v {
                    V::Codata(c) => {
                        let Some((_, ids, body)) = c.clauses.iter().find(|cl| cl.0 == *name) else { return Err(stuck("destructor: no clause")) };
                        if ids.len() != done.len() {
                            return Err(stuck("destructor: binder count"));
                        }
                        let mut e2 = c.env.clone();
                        for (id, val) in ids.iter().zip(done.iter()) {
                            e2 = e2.bind(*id, val.clone());
                        }
                        State::Eval(body.clone(), e2, k2.clone())
                    }
                    V::Repeat0(x) => match name.as_str() {
                        "head" => State::Ret(V::Int(*x), k2.clone()),
                        "tail" => State::Ret(V::Repeat0(*x), k2.clone()),
                        _ => return Err(stuck("destructor of repeat0")),
                    },
                    _ => return Err(stuck("destructor: not codata")),
                },
            },
        };
    })();
    out.end = match r {
        Ok(v) => FunEnd::Done(v),
        Err(e) => e,
    };
    out
}

fn holds(sort: usize, a: i64, b: i64) -> bool {
    match sort {
        0 => a == b,
        1 => a != b,
        2 => a < b,
        3 => a <= b,
        4 => a > b,
        _ => a >= b,
    }
}

#[allow(clippy::too_many_arguments)]
fn args_step(m: &M, what: Rc<What>, done: Vec<V>, rest: Rc<Vec<Rc<E>>>, flags: Rc<Vec<bool>>, idx: usize, env: Env, k: K) -> Result<State, FunEnd> {
    let mut done = done;
    let mut idx = idx;
    while idx < rest.len() {
        if flags[idx] {
            done.push(V::Thunk(rest[idx].clone(), env.clone()));
            idx += 1;
            continue;
        }
        let t = rest[idx].clone();
        return Ok(State::Eval(t, env.clone(), K(Rc::new(Frame::Args(what, done, rest, flags, idx, env, k)))));
    }
    let stuck = |s: &str| FunEnd::Stuck(format!("generator-side reference: {s}"));
    match &*what {
        What::Ctor(name) => Ok(State::Ret(V::Data(Rc::new((name.clone(), done))), k)),
        What::Call(d) => {
            if *d == usize::MAX {
                // def repeat0(x: i64): Stream[i64] { new { head => x, tail => repeat0(x) } }
                let x = int(&done[0])?;
                return Ok(State::Ret(V::Repeat0(x), k));
            }
            let sig = &m.tree.sigs[*d];
            let mut e = Env(None);
            for ((id, _, _), v) in sig.params.iter().zip(done) {
                e = e.bind(*id, v);
            }
            let body = m.bodies.get(*d).ok_or_else(|| stuck("call: no body"))?;
            Ok(State::Eval(body.clone(), e, k))
        }
        What::Dtor(scrutinee, name) => Ok(State::Eval(scrutinee.clone(), env, K(Rc::new(Frame::DtorApply(name.clone(), done, k))))),
    }
}
