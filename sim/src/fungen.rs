//! Type-directed generator of Fun programs in the fragment where the source semantics is
//! unambiguous (effects only in sequenced positions, pure terminating arguments and codata
//! bodies). Programs are built as a tree with unique binder ids and printed twice: with
//! deliberately shadowing names and with globally unique names (same meaning by lexical scoping).

use crate::prng::Rng;
use std::collections::BTreeMap;

#[derive(Clone, Debug, PartialEq, Eq, PartialOrd, Ord)]
pub enum T {
    I,
    /// instantiated declared type, data or codata
    D(String, Vec<T>),
}

impl T {
    pub fn show(&self) -> String {
        match self {
            T::I => "i64".into(),
            T::D(n, a) if a.is_empty() => n.clone(),
            T::D(n, a) => format!("{n}[{}]", a.iter().map(|t| t.show()).collect::<Vec<_>>().join(", ")),
        }
    }
    fn targs(&self) -> String {
        match self {
            T::D(_, a) if !a.is_empty() => format!("[{}]", a.iter().map(|t| t.show()).collect::<Vec<_>>().join(", ")),
            _ => String::new(),
        }
    }
}

#[derive(Clone, Copy, Debug, PartialEq, Eq)]
pub enum Op {
    Add,
    Sub,
    Mul,
    Div,
    Rem,
}

#[derive(Clone, Debug)]
pub enum E {
    Lit(i64),
    Var(usize),
    Op(Box<E>, Op, Box<E>),
    If(usize, Box<E>, Option<Box<E>>, Box<E>, Box<E>),
    Let(usize, T, Box<E>, Box<E>),
    Call(usize, Vec<E>),
    /// constructor name, arguments, type of the constructed value
    Ctor(String, Vec<E>, T),
    Case(Box<E>, T, Vec<(String, Vec<usize>, E)>),
    New(Vec<(String, Vec<usize>, E)>),
    Dtor(Box<E>, T, String, Vec<E>),
    Label(usize, Box<E>),
    Goto(usize, Box<E>),
    Print(bool, Box<E>, Box<E>),
    Exit(Box<E>),
}

/// declared type templates: (name, params, is_codata, xtors(name, arg types over params, ret type for dtors))
#[derive(Clone, Debug)]
pub struct Decl {
    pub name: &'static str,
    pub params: usize,
    pub codata: bool,
    /// xtor name, argument types (P(i) = i-th parameter), continuation type for destructors
    pub xtors: Vec<(&'static str, Vec<TT>, Option<TT>)>,
}

#[derive(Clone, Debug)]
pub enum TT {
    I,
    /// covariable parameter of a destructor: a continuation expecting an i64
    K,
    P(usize),
    D(&'static str, Vec<TT>),
}

fn inst(t: &TT, args: &[T]) -> T {
    match t {
        TT::I | TT::K => T::I,
        TT::P(i) => args[*i].clone(),
        TT::D(n, a) => T::D(n.to_string(), a.iter().map(|x| inst(x, args)).collect()),
    }
}

fn show_tt(t: &TT) -> String {
    match t {
        TT::I | TT::K => "i64".into(),
        TT::P(i) => ["A", "B", "C"][*i].into(),
        TT::D(n, a) if a.is_empty() => n.to_string(),
        TT::D(n, a) => format!("{n}[{}]", a.iter().map(show_tt).collect::<Vec<_>>().join(", ")),
    }
}

pub fn library() -> Vec<Decl> {
    use TT::*;
    vec![
        Decl { name: "List", params: 1, codata: false, xtors: vec![("Nil", vec![], None), ("Cons", vec![P(0), D("List", vec![P(0)])], None)] },
        Decl { name: "Pair", params: 2, codata: false, xtors: vec![("Tup", vec![P(0), P(1)], None)] },
        Decl { name: "Opt", params: 1, codata: false, xtors: vec![("None", vec![], None), ("Some", vec![P(0)], None)] },
        Decl {
            name: "Big",
            params: 0,
            codata: false,
            xtors: vec![
                ("Big0", vec![], None),
                ("Big8", vec![I, I, I, I, I, I, I, I], None),
                ("Big5", vec![I, D("List", vec![I]), I, I, I], None),
                ("Big4", vec![I, I, D("Opt", vec![I]), I], None),
            ],
        },
        Decl { name: "Color", params: 0, codata: false, xtors: vec![("Red", vec![], None), ("Green", vec![], None), ("Blue", vec![], None), ("Mix", vec![I, I], None)] },
        Decl { name: "Fun", params: 2, codata: true, xtors: vec![("apply", vec![P(0)], Some(P(1)))] },
        Decl { name: "Fun2", params: 3, codata: true, xtors: vec![("apply2", vec![P(0), P(1)], Some(P(2)))] },
        Decl { name: "Stream", params: 1, codata: true, xtors: vec![("head", vec![], Some(P(0))), ("tail", vec![], Some(D("Stream", vec![P(0)])))] },
        Decl { name: "LPair", params: 2, codata: true, xtors: vec![("lfst", vec![], Some(P(0))), ("lsnd", vec![], Some(P(1)))] },
        // a data type whose first constructor has arguments and whose second has none
        Decl { name: "Res", params: 1, codata: false, xtors: vec![("Ok", vec![P(0)], None), ("Err", vec![], None), ("Warn", vec![P(0), I], None)] },
        // a type whose name differs from another one in case only
        Decl { name: "COLOR", params: 0, codata: false, xtors: vec![("RED", vec![], None), ("GREEN", vec![I], None)] },
        // six constructors (jump table with more than four entries)
        Decl { name: "Six", params: 0, codata: false, xtors: vec![("S0", vec![], None), ("S1", vec![I], None), ("S2", vec![], None), ("S3", vec![I, I], None), ("S4", vec![], None), ("S5", vec![D("List", vec![I])], None)] },
        // a codata type whose destructor takes a value of the type itself (`f.app(f, n)`)
        Decl { name: "Rec", params: 0, codata: true, xtors: vec![("app", vec![D("Rec", vec![]), I], Some(I))] },
        // destructors with covariable parameters (trailing and leading)
        Decl { name: "Handler", params: 1, codata: true, xtors: vec![("handle", vec![P(0), K], Some(I)), ("pass", vec![K, I, P(0)], Some(P(0)))] },
    ]
}

pub fn decl_text(d: &Decl) -> String {
    let params = if d.params == 0 { String::new() } else { format!("[{}]", ["A", "B", "C"][..d.params].join(", ")) };
    let names = ["p", "q", "r", "s", "t", "u", "v", "w"];
    let xs: Vec<String> = d
        .xtors
        .iter()
        .map(|(n, args, ret)| {
            let a = if args.is_empty() {
                String::new()
            } else {
                format!("({})", args.iter().enumerate().map(|(i, t)| format!("{}{} {}", names[i], if matches!(t, TT::K) { " :cns" } else { ":" }, show_tt(t))).collect::<Vec<_>>().join(", "))
            };
            match ret {
                Some(r) => format!("{n}{a}: {}", show_tt(r)),
                None => format!("{n}{a}"),
            }
        })
        .collect();
    format!("{} {}{} {{ {} }}\n", if d.codata { "codata" } else { "data" }, d.name, params, xs.join(", "))
}

#[derive(Clone, Debug)]
pub struct DefSig {
    pub name: String,
    /// (binder id, type, is covariable)
    pub params: Vec<(usize, T, bool)>,
    pub ret: T,
    pub pure: bool,
}

#[derive(Clone, Debug)]
pub struct FunProg {
    pub shadowed: String,
    pub unique: String,
    /// the shadowed spelling with every binder that reuses a visible name renamed apart: pool
    /// names (x0, a0, share_f_0 ...) stay, user-level shadowing is gone
    pub deshadowed: String,
    pub args: Vec<i64>,
    pub has_shadowing: bool,
    pub size: usize,
    /// the generated tree itself (signatures and bodies), input of the generator-side reference
    pub tree: std::rc::Rc<FunTree>,
}

#[derive(Clone, Debug)]
pub struct FunTree {
    pub sigs: Vec<DefSig>,
    /// body of definition i
    pub bodies: Vec<E>,
}

#[derive(Clone, Debug)]
pub struct FunCfg {
    pub n_defs: usize,
    pub n_args: usize,
    pub size: usize,
    pub label_pct: u32,
    pub codata_pct: u32,
    pub print_pct: u32,
    pub big_lit_pct: u32,
    pub many_live: bool,
    pub shadow_pct: u32,
    pub type_instances: usize,
    pub divrem_pct: u32,
    /// effects (print, calls of effectful definitions) inside operator operands and call/constructor arguments of integer or data type: evaluated left to right
    pub eff_args_pct: u32,
    /// effects inside codata-typed bound terms and arguments (evaluated by name: at every use)
    pub eff_codata_pct: u32,
}

impl FunCfg {
    pub fn swarm(rng: &mut Rng, size: usize) -> FunCfg {
        FunCfg {
            n_defs: 1 + rng.below(5),
            n_args: rng.below(6),
            size: 8 + rng.below(size.max(9) - 8),
            label_pct: [0, 10, 30][rng.below(3)],
            codata_pct: [0, 15, 40][rng.below(3)],
            print_pct: [5, 20, 50][rng.below(3)],
            big_lit_pct: [0, 10, 40][rng.below(3)],
            many_live: rng.pct(35),
            shadow_pct: [0, 0, 30, 80][rng.below(4)],
            type_instances: 1 + rng.below(4),
            divrem_pct: [0, 10, 25][rng.below(3)],
            eff_args_pct: [0, 0, 20, 50][rng.below(4)],
            eff_codata_pct: [0, 0, 25, 60][rng.below(4)],
        }
    }
}

struct Scope {
    /// (id, type, is covariable)
    vars: Vec<(usize, T, bool)>,
}

pub struct G<'a> {
    rng: &'a mut Rng,
    cfg: FunCfg,
    lib: Vec<Decl>,
    next_id: usize,
    budget: isize,
    sigs: Vec<DefSig>,
    /// element types used for instantiation
    elems: Vec<T>,
    cur_def: usize,
    /// > 0 while the body of a clause of the self-referential codata type `Rec` is generated: no
    /// `app` invocations and no calls that take a `Rec` there (termination)
    in_rec: usize,
}

const BIG_LITS: [i64; 16] = [
    2147483647,
    2147483648,
    -2147483648,
    -2147483649,
    4294967296,
    5000000000,
    -5000000000,
    281474976710655,
    1311768467463790320,
    -1311768467463790320,
    9223372036854775807,
    -9223372036854775807,
    65535,
    65536,
    -65537,
    1000000007,
];

impl<'a> G<'a> {
    fn fresh(&mut self) -> usize {
        self.next_id += 1;
        self.next_id
    }
    fn decl(&self, n: &str) -> Decl {
        self.lib.iter().find(|d| d.name == n).unwrap().clone()
    }
    fn is_codata(&self, t: &T) -> bool {
        match t {
            T::I => false,
            T::D(n, _) => self.decl(n).codata,
        }
    }

    fn random_type(&mut self, allow_codata: bool, depth: usize) -> T {
        let k = self.rng.below(10);
        if k < 5 || depth > 1 {
            return T::I;
        }
        let cands: Vec<Decl> = self.lib.iter().filter(|d| allow_codata && self.rng_ok_codata() || !d.codata).cloned().collect();
        let d = cands[self.rng.below(cands.len())].clone();
        let args: Vec<T> = (0..d.params)
            .map(|_| if self.rng.pct(70) || d.name == "Stream" { T::I } else { self.elems[self.rng.below(self.elems.len())].clone() })
            .collect();
        T::D(d.name.to_string(), args)
    }
    fn rng_ok_codata(&self) -> bool {
        self.cfg.codata_pct > 0
    }

    fn lit(&mut self) -> i64 {
        if self.rng.pct(self.cfg.big_lit_pct) {
            *self.rng.pick(&BIG_LITS)
        } else {
            self.rng.range(-9, 40)
        }
    }

    /// pure, terminating expression of type `t`
    fn pure(&mut self, t: &T, sc: &Scope, depth: usize) -> E {
        self.budget -= 1;
        let vars: Vec<usize> = sc.vars.iter().filter(|(_, vt, cv)| !*cv && vt == t).map(|(i, _, _)| *i).collect();
        let small = depth > 3 || self.budget < 0;
        match t {
            T::I => {
                let k = self.rng.below(100);
                if !vars.is_empty() && (k < 35 || small && k < 70) {
                    return E::Var(*self.rng.pick(&vars));
                }
                if small || k < 50 {
                    return E::Lit(self.lit());
                }
                if k < 70 {
                    let a = self.pure(&T::I, sc, depth + 1);
                    let mut op = *self.rng.pick(&[Op::Add, Op::Sub, Op::Mul, Op::Add, Op::Sub]);
                    let b = if self.rng.pct(self.cfg.divrem_pct) {
                        op = if self.rng.pct(50) { Op::Div } else { Op::Rem };
                        if !vars.is_empty() && self.rng.pct(40) {
                            // a variable divisor (runs with a zero divisor are discarded); prefer the first parameter
                            E::Var(if self.rng.pct(50) { vars[0] } else { *self.rng.pick(&vars) })
                        } else {
                            let mut d = self.lit();
                            if d == 0 || d == -1 {
                                d = 7;
                            }
                            E::Lit(d)
                        }
                    } else {
                        self.pure(&T::I, sc, depth + 1)
                    };
                    return E::Op(Box::new(a), op, Box::new(b));
                }
                if k < 78 {
                    let (c, snd) = if vars.len() >= 6 && self.rng.pct(50) {
                        // two of the later variables (beyond the register file after translation)
                        let a = vars[vars.len() - 1 - self.rng.below(3)];
                        let b = vars[vars.len() - 1 - self.rng.below(3)];
                        (E::Var(a), Some(Box::new(E::Var(b))))
                    } else if vars.len() >= 2 && self.rng.pct(20) {
                        // a difference compared with zero (not the same as comparing the operands
                        // when the subtraction wraps)
                        let (a, b) = (*self.rng.pick(&vars), *self.rng.pick(&vars));
                        (E::Op(Box::new(E::Var(a)), Op::Sub, Box::new(E::Var(b))), None)
                    } else {
                        let c = self.pure(&T::I, sc, depth + 1);
                        (c, if self.rng.pct(50) { Some(Box::new(self.pure(&T::I, sc, depth + 1))) } else { None })
                    };
                    let a = self.pure(&T::I, sc, depth + 1);
                    let b = self.pure(&T::I, sc, depth + 1);
                    return E::If(self.rng.below(6), Box::new(c), snd, Box::new(a), Box::new(b));
                }
                if k < 86 {
                    // case on a data variable
                    if let Some(e) = self.case_on_var(t, sc, depth, false) {
                        return e;
                    }
                }
                if k < 92 {
                    if self.rng.pct(40) {
                        if let Some(e) = self.dtor_on_call(t, sc, depth, true) {
                            return e;
                        }
                    }
                    // destructor of a codata variable returning i64
                    if let Some(e) = self.dtor_on_var(t, sc, depth, false) {
                        return e;
                    }
                }
                if k < 97 {
                    if let Some(e) = self.call(t, sc, depth, true) {
                        return e;
                    }
                }
                let x = self.fresh();
                let bt = if self.rng.pct(60) { T::I } else { self.random_type(false, depth) };
                let b = self.pure(&bt, sc, depth + 1);
                let mut sc2 = Scope { vars: sc.vars.clone() };
                sc2.vars.push((x, bt.clone(), false));
                let body = self.pure(t, &sc2, depth + 1);
                E::Let(x, bt, Box::new(b), Box::new(body))
            }
            T::D(n, args) => {
                let d = self.decl(n);
                let k = self.rng.below(100);
                if !vars.is_empty() && (k < 55 || small && k < 90) {
                    return E::Var(*self.rng.pick(&vars));
                }
                if d.codata {
                    // a quarter of the codata values come out of a definition
                    if !small && self.rng.pct(25) {
                        if let Some(e) = self.call(t, sc, depth, true) {
                            return e;
                        }
                    }
                    let mut clauses = Vec::new();
                    let rec = d.name == "Rec";
                    if rec {
                        self.in_rec += 1;
                    }
                    for (xn, xargs, ret) in &d.xtors {
                        let mut sc2 = Scope { vars: sc.vars.clone() };
                        let mut ids = Vec::new();
                        let mut ks = Vec::new();
                        for a in xargs {
                            let id = self.fresh();
                            let cv = matches!(a, TT::K);
                            if cv {
                                ks.push(id);
                            }
                            sc2.vars.push((id, inst(a, args), cv));
                            ids.push(id);
                        }
                        let rt = inst(ret.as_ref().unwrap(), args);
                        if ks.is_empty() && rt == T::I && self.rng.pct(12) {
                            let outer: Vec<usize> = sc2.vars.iter().filter(|(_, vt, cv)| *cv && *vt == T::I).map(|(i, _, _)| *i).collect();
                            let ints: Vec<usize> = sc2.vars.iter().filter(|(_, vt, cv)| !*cv && *vt == T::I).map(|(i, _, _)| *i).collect();
                            if !outer.is_empty() && self.rng.pct(50) {
                                // the clause leaves through a label of the enclosing scope, which the
                                // object captures
                                let c = self.pure(&T::I, &sc2, depth + 2);
                                let v = self.pure(&T::I, &sc2, depth + 2);
                                let other = self.pure(&T::I, &sc2, depth + 2);
                                let jump = E::Goto(*self.rng.pick(&outer), Box::new(v));
                                clauses.push((xn.to_string(), ids, E::If(self.rng.below(6), Box::new(c), None, Box::new(jump), Box::new(other))));
                                continue;
                            }
                            if ints.len() >= 5 {
                                // a wide environment: the body mentions up to eight variables
                                let mut body = E::Lit(self.lit());
                                for v in ints.iter().rev().take(8) {
                                    let op = *self.rng.pick(&[Op::Add, Op::Sub, Op::Add]);
                                    body = E::Op(Box::new(body), op, Box::new(E::Var(*v)));
                                }
                                clauses.push((xn.to_string(), ids, body));
                                continue;
                            }
                        }
                        if !ks.is_empty() && self.rng.pct(60) {
                            // leave through the covariable parameter on one branch
                            let c = self.pure(&T::I, &sc2, depth + 2);
                            let v = self.pure(&T::I, &sc2, depth + 2);
                            let other = if rt == *t { self.tiny_codata(t, &sc2) } else { self.pure(&rt, &sc2, depth + 2) };
                            let jump = E::Goto(*self.rng.pick(&ks), Box::new(v));
                            let body = if self.rng.pct(50) {
                                E::If(self.rng.below(6), Box::new(c), None, Box::new(jump), Box::new(other))
                            } else {
                                E::If(self.rng.below(6), Box::new(c), None, Box::new(other), Box::new(jump))
                            };
                            clauses.push((xn.to_string(), ids, body));
                            continue;
                        }
                        // recursive codata (Stream.tail) must not recurse forever: reuse a variable or stop
                        let body = if rt == *t {
                            let same: Vec<usize> = sc2.vars.iter().filter(|(_, vt, cv)| !*cv && vt == t).map(|(i, _, _)| *i).collect();
                            if !same.is_empty() && self.rng.pct(70) || depth > 1 {
                                if same.is_empty() { self.tiny_codata(t, &sc2) } else { E::Var(*self.rng.pick(&same)) }
                            } else {
                                self.pure(&rt, &sc2, depth + 2)
                            }
                        } else {
                            self.pure(&rt, &sc2, depth + 1)
                        };
                        clauses.push((xn.to_string(), ids, body));
                    }
                    if rec {
                        self.in_rec -= 1;
                    }
                    return E::New(clauses);
                }
                if k < 55 && !small {
                    if let Some(e) = self.call(t, sc, depth, true) {
                        return e;
                    }
                }
                if k < 62 && !small {
                    let c = self.pure(&T::I, sc, depth + 1);
                    let a = self.pure(t, sc, depth + 1);
                    let b = self.pure(t, sc, depth + 1);
                    return E::If(self.rng.below(6), Box::new(c), None, Box::new(a), Box::new(b));
                }
                // constructor; prefer small ones when deep
                let xs: Vec<&(&'static str, Vec<TT>, Option<TT>)> = d.xtors.iter().collect();
                let x = if small { xs.iter().min_by_key(|x| x.1.len()).unwrap() } else { xs[self.rng.below(xs.len())] };
                let mut es = Vec::new();
                for a in &x.1 {
                    let at = inst(a, args);
                    es.push(self.pure(&at, sc, depth + 1));
                }
                E::Ctor(x.0.to_string(), es, t.clone())
            }
        }
    }

    /// smallest closed value of a codata type (used to stop recursion)
    fn tiny_codata(&mut self, t: &T, sc: &Scope) -> E {
        let T::D(n, args) = t else { return E::Lit(0) };
        let d = self.decl(n);
        let mut clauses = Vec::new();
        for (xn, xargs, ret) in &d.xtors {
            let ids: Vec<usize> = xargs.iter().map(|_| self.fresh()).collect();
            let rt = inst(ret.as_ref().unwrap(), args);
            let same: Vec<usize> = sc.vars.iter().filter(|(_, vt, cv)| !*cv && *vt == rt).map(|(i, _, _)| *i).collect();
            let body = if let Some(v) = same.first() {
                E::Var(*v)
            } else if rt == T::I {
                E::Lit(1)
            } else if self.is_codata(&rt) {
                // cannot build a finite tower: give up on this shape with a self-free constant stream
                return self.const_stream(t);
            } else {
                self.min_data(&rt)
            };
            clauses.push((xn.to_string(), ids, body));
        }
        E::New(clauses)
    }

    fn const_stream(&mut self, t: &T) -> E {
        // only reachable for Stream: there is no closed finite stream without recursion, so route
        // through a recursive definition is not available here; use head = 0, tail = <same via let>
        // which is not expressible either -> fall back to a stream whose tail is itself via a def
        let _ = t;
        E::Call(usize::MAX, vec![E::Lit(self.rng.range(0, 9))])
    }

    fn min_data(&mut self, t: &T) -> E {
        let T::D(n, args) = t else { return E::Lit(0) };
        let d = self.decl(n);
        let x = d.xtors.iter().min_by_key(|x| x.1.len()).unwrap().clone();
        let es = x.1.iter().map(|a| {
            let at = inst(a, args);
            if at == T::I { E::Lit(0) } else { self.min_data(&at) }
        });
        let es: Vec<E> = es.collect();
        E::Ctor(x.0.to_string(), es, t.clone())
    }

    /// `f(..).case { .. }`: the scrutinee is the data result of a call (possibly the first mention
    /// of that instance of the type in the whole program)
    fn case_on_call(&mut self, t: &T, sc: &Scope, depth: usize, eff: bool) -> Option<E> {
        let mut rts: Vec<T> = Vec::new();
        for (i, sg) in self.sigs.iter().enumerate() {
            if i > self.cur_def && (eff || sg.pure) && matches!(&sg.ret, T::D(..)) && !self.is_codata(&sg.ret) && !rts.contains(&sg.ret) {
                rts.push(sg.ret.clone());
            }
        }
        if rts.is_empty() {
            return None;
        }
        let vt = rts[self.rng.below(rts.len())].clone();
        // the scrutinee: a call, or any other non-variable term of that type (a conditional, a match,
        // a let ...)
        let callee = if self.rng.pct(60) {
            self.call(&vt, sc, depth + 1, !eff)?
        } else if eff && self.rng.pct(self.cfg.eff_args_pct) {
            self.eff(&vt, sc, depth + 3)
        } else {
            self.pure(&vt, sc, depth + 2)
        };
        let T::D(n, args) = &vt else { return None };
        let d = self.decl(n);
        let mut clauses = Vec::new();
        for (xn, xargs, _) in &d.xtors {
            let mut sc2 = Scope { vars: sc.vars.clone() };
            let mut ids = Vec::new();
            for a in xargs {
                let id = self.fresh();
                sc2.vars.push((id, inst(a, args), false));
                ids.push(id);
            }
            let body = if eff { self.eff(t, &sc2, depth + 1) } else { self.pure(t, &sc2, depth + 1) };
            clauses.push((xn.to_string(), ids, body));
        }
        if self.rng.pct(30) {
            self.rng.shuffle(&mut clauses);
        }
        Some(E::Case(Box::new(callee), vt, clauses))
    }

    fn case_on_var(&mut self, t: &T, sc: &Scope, depth: usize, eff: bool) -> Option<E> {
        if self.rng.pct(20) {
            if let Some(e) = self.case_on_call(t, sc, depth, eff) {
                return Some(e);
            }
        }
        let cands: Vec<(usize, T)> = sc.vars.iter().filter(|(_, vt, cv)| !*cv && matches!(vt, T::D(..)) && !self.is_codata(vt)).map(|(i, vt, _)| (*i, vt.clone())).collect();
        if cands.is_empty() {
            return None;
        }
        let (v, vt) = cands[self.rng.below(cands.len())].clone();
        let T::D(n, args) = &vt else { return None };
        let d = self.decl(n);
        let mut clauses = Vec::new();
        for (xn, xargs, _) in &d.xtors {
            let mut sc2 = Scope { vars: sc.vars.clone() };
            let mut ids = Vec::new();
            for a in xargs {
                let id = self.fresh();
                sc2.vars.push((id, inst(a, args), false));
                ids.push(id);
            }
            let body = if eff { self.eff(t, &sc2, depth + 1) } else { self.pure(t, &sc2, depth + 1) };
            clauses.push((xn.to_string(), ids, body));
        }
        // clause order is free in the source
        if self.rng.pct(30) {
            self.rng.shuffle(&mut clauses);
        }
        Some(E::Case(Box::new(E::Var(v)), vt, clauses))
    }

    fn dtor_on_var(&mut self, t: &T, sc: &Scope, depth: usize, eff: bool) -> Option<E> {
        let labels: Vec<usize> = sc.vars.iter().filter(|(_, vt, cv)| *cv && *vt == T::I).map(|(i, _, _)| *i).collect();
        let have_label = !labels.is_empty();
        let mut cands: Vec<(usize, T, String, Vec<(T, bool)>)> = Vec::new();
        for (i, vt, cv) in &sc.vars {
            if *cv {
                continue;
            }
            if let T::D(n, args) = vt {
                let d = self.decl(n);
                if d.codata && !(self.in_rec > 0 && d.name == "Rec") {
                    for (xn, xargs, ret) in &d.xtors {
                        let needs_label = xargs.iter().any(|a| matches!(a, TT::K));
                        if inst(ret.as_ref().unwrap(), args) == *t && (!needs_label || have_label) {
                            cands.push((*i, vt.clone(), xn.to_string(), xargs.iter().map(|a| (inst(a, args), matches!(a, TT::K))).collect()));
                        }
                    }
                }
            }
        }
        if cands.is_empty() {
            return None;
        }
        let (v, vt, xn, ats) = cands[self.rng.below(cands.len())].clone();
        let mut es = Vec::new();
        for (a, cv) in &ats {
            if *cv {
                es.push(E::Var(*self.rng.pick(&labels)));
            } else if eff && !self.is_codata(a) && self.rng.pct(self.cfg.eff_args_pct) {
                // integer and data arguments of a destructor are evaluated left to right, before
                // the scrutinee is observed
                es.push(self.eff(a, sc, depth + 2));
            } else {
                es.push(self.pure(a, sc, depth + 1));
            }
        }
        Some(E::Dtor(Box::new(E::Var(v)), vt, xn, es))
    }

    /// a destructor applied directly to the codata result of a call: `idf(g).apply[..](3)`
    fn dtor_on_call(&mut self, t: &T, sc: &Scope, depth: usize, pure_only: bool) -> Option<E> {
        let mut cands: Vec<(T, String, Vec<T>)> = Vec::new();
        for (i, sg) in self.sigs.iter().enumerate() {
            if i <= self.cur_def || pure_only && !sg.pure {
                continue;
            }
            if let T::D(n, args) = &sg.ret {
                let d = self.decl(n);
                if d.codata && !(self.in_rec > 0 && d.name == "Rec") {
                    for (xn, xargs, ret) in &d.xtors {
                        if xargs.iter().all(|a| !matches!(a, TT::K)) && inst(ret.as_ref().unwrap(), args) == *t {
                            cands.push((sg.ret.clone(), xn.to_string(), xargs.iter().map(|a| inst(a, args)).collect()));
                        }
                    }
                }
            }
        }
        if cands.is_empty() {
            return None;
        }
        let (rt, xn, ats) = cands[self.rng.below(cands.len())].clone();
        let callee = self.call(&rt, sc, depth + 1, pure_only)?;
        let es = ats.iter().map(|a| self.pure(a, sc, depth + 1)).collect();
        Some(E::Dtor(Box::new(callee), rt, xn, es))
    }

    fn call(&mut self, t: &T, sc: &Scope, depth: usize, pure_only: bool) -> Option<E> {
        let cands: Vec<usize> = self
            .sigs
            .iter()
            .enumerate()
            .filter(|(i, s)| *i > self.cur_def && s.ret == *t && (!pure_only || s.pure))
            .filter(|(_, s)| self.in_rec == 0 || s.params.iter().all(|(_, pt, _)| !matches!(pt, T::D(n, _) if n == "Rec")))
            .filter(|(_, s)| s.params.iter().all(|(_, _, cv)| !*cv || *t == T::I && !pure_only || sc.vars.iter().any(|(_, vt, c)| *c && *vt == T::I)))
            .map(|(i, _)| i)
            .collect();
        if cands.is_empty() {
            return None;
        }
        let di = *self.rng.pick(&cands);
        let sig = self.sigs[di].clone();
        // covariable parameters: labels in scope, or (for integer results) fresh labels wrapped
        // around the call, each adding its own offset, so that returning normally and leaving
        // through any one of the labels give different results
        let n_cv = sig.params.iter().filter(|(_, _, cv)| *cv).count();
        let have = sc.vars.iter().any(|(_, vt, c)| *c && *vt == T::I);
        let wrap = n_cv > 0 && *t == T::I && !pure_only && (!have || self.rng.pct(40));
        let fresh_labels: Vec<usize> = if wrap { (0..n_cv).map(|_| self.fresh()).collect() } else { Vec::new() };
        let mut next_label = 0;
        let mut es = Vec::new();
        for (k, (_, pt, cv)) in sig.params.iter().enumerate() {
            if *cv {
                if wrap {
                    es.push(E::Var(fresh_labels[next_label]));
                    next_label += 1;
                    continue;
                }
                let ks: Vec<usize> = sc.vars.iter().filter(|(_, vt, c)| *c && *vt == *pt).map(|(i, _, _)| *i).collect();
                es.push(E::Var(*self.rng.pick(&ks)));
            } else if k == 0 {
                // the counter: a small literal
                es.push(E::Lit(self.rng.range(0, 6)));
            } else if !pure_only && self.rng.pct(self.cfg.eff_args_pct / 3) && sc.vars.iter().any(|(_, vt, c)| *c && *vt == T::I) {
                // a jump (or exit) standing where a value of any type is expected
                let ks: Vec<usize> = sc.vars.iter().filter(|(_, vt, c)| *c && *vt == T::I).map(|(i, _, _)| *i).collect();
                let v = self.pure(&T::I, sc, depth + 2);
                es.push(if self.rng.pct(80) { E::Goto(*self.rng.pick(&ks), Box::new(v)) } else { E::Exit(Box::new(v)) });
            } else if !pure_only && !self.is_codata(pt) && self.rng.pct(self.cfg.eff_args_pct) {
                es.push(self.eff(pt, sc, depth + 2));
            } else if !pure_only && self.is_codata(pt) && self.rng.pct(self.cfg.eff_codata_pct) {
                es.push(self.eff(pt, sc, depth + 2));
            } else {
                es.push(self.pure(pt, sc, depth + 1));
            }
        }
        let mut e = E::Call(di, es);
        for (j, l) in fresh_labels.iter().enumerate().rev() {
            let offset = [1000, 100, 10, 7][j % 4] * (1 + self.rng.below(9) as i64);
            e = E::Label(*l, Box::new(E::Op(Box::new(E::Lit(offset)), Op::Add, Box::new(e))));
        }
        Some(e)
    }

    /// expression in a sequenced position: effects allowed
    fn eff(&mut self, t: &T, sc: &Scope, depth: usize) -> E {
        self.budget -= 1;
        if depth > 7 || self.budget < 0 {
            return self.pure(t, sc, depth);
        }
        let k = self.rng.below(100);
        let ints: Vec<usize> = sc.vars.iter().filter(|(_, vt, cv)| !*cv && *vt == T::I).map(|(i, _, _)| *i).collect();
        if k < self.cfg.print_pct as usize {
            let a = if self.rng.pct(self.cfg.eff_args_pct / 2) {
                // the printed value is computed with effects of its own (another print, a jump)
                self.eff(&T::I, sc, depth + 3)
            } else if !ints.is_empty() && self.rng.pct(60) {
                E::Var(*self.rng.pick(&ints))
            } else {
                self.pure(&T::I, sc, depth + 2)
            };
            let next = self.eff(t, sc, depth + 1);
            return E::Print(self.rng.pct(50), Box::new(a), Box::new(next));
        }
        if *t == T::I && self.cfg.label_pct > 0 && self.rng.pct(7) {
            // composite shape: a branching let-bound term (its continuation is shared by both
            // branches and gets lifted to a definition), followed by a label whose body passes a
            // jump to that label where a non-integer argument is expected
            let cands: Vec<usize> = self
                .sigs
                .iter()
                .enumerate()
                .filter(|(i, s)| *i > self.cur_def && s.ret == T::I && s.params.iter().skip(1).any(|(_, pt, cv)| !*cv && *pt != T::I) && s.params.iter().all(|(_, _, cv)| !*cv))
                .map(|(i, _)| i)
                .collect();
            if !cands.is_empty() {
                let di = *self.rng.pick(&cands);
                let sig = self.sigs[di].clone();
                let x = self.fresh();
                let c = self.pure(&T::I, sc, depth + 2);
                let a = self.pure(&T::I, sc, depth + 2);
                let b = self.pure(&T::I, sc, depth + 2);
                let bound = E::If(self.rng.below(6), Box::new(c), None, Box::new(a), Box::new(b));
                let mut sc2 = Scope { vars: sc.vars.clone() };
                sc2.vars.push((x, T::I, false));
                let l = self.fresh();
                let mut sc3 = Scope { vars: sc2.vars.clone() };
                sc3.vars.push((l, T::I, true));
                let mut jumped = false;
                let mut es = Vec::new();
                for (k, (_, pt, _)) in sig.params.iter().enumerate() {
                    if k == 0 {
                        es.push(E::Lit(self.rng.range(0, 4)));
                    } else if *pt != T::I && (!jumped || self.rng.pct(30)) {
                        jumped = true;
                        let v = self.pure(&T::I, &sc3, depth + 2);
                        es.push(E::Goto(l, Box::new(v)));
                    } else {
                        es.push(self.pure(pt, &sc3, depth + 2));
                    }
                }
                let body = E::Label(l, Box::new(E::Call(di, es)));
                return E::Let(x, T::I, Box::new(bound), Box::new(body));
            }
        }
        if *t == T::I && self.cfg.codata_pct > 0 && self.rng.pct(6) {
            // composite shape: an object whose destructor takes a covariable is invoked with a fresh
            // label inside an operand, so that returning normally and leaving through the
            // covariable give different results
            let ht = T::D("Handler".into(), vec![T::I]);
            let l = self.fresh();
            let mut sc2 = Scope { vars: sc.vars.clone() };
            sc2.vars.push((l, T::I, true));
            let mut obj = None;
            for _ in 0..6 {
                let e = self.pure(&ht, &sc2, depth + 1);
                if matches!(e, E::New(_)) {
                    obj = Some(e);
                    break;
                }
            }
            if let Some(obj) = obj {
                let h = self.fresh();
                let mut sc3 = Scope { vars: sc2.vars.clone() };
                sc3.vars.push((h, ht.clone(), false));
                let a = self.pure(&T::I, &sc3, depth + 2);
                let inv = if self.rng.pct(70) {
                    E::Dtor(Box::new(E::Var(h)), ht.clone(), "handle".into(), vec![a, E::Var(l)])
                } else {
                    let b = self.pure(&T::I, &sc3, depth + 2);
                    E::Dtor(Box::new(E::Var(h)), ht.clone(), "pass".into(), vec![E::Var(l), a, b])
                };
                let other = self.pure(&T::I, &sc3, depth + 2);
                let op = *self.rng.pick(&[Op::Add, Op::Sub, Op::Mul]);
                let body = if self.rng.pct(50) { E::Op(Box::new(other), op, Box::new(inv)) } else { E::Op(Box::new(inv), op, Box::new(other)) };
                return E::Label(l, Box::new(E::Let(h, ht, Box::new(obj), Box::new(body))));
            }
        }
        if self.rng.pct(self.cfg.eff_args_pct) {
            // effects inside operands / arguments: evaluated innermost first, left to right
            match t {
                T::I => {
                    let a = self.eff(&T::I, sc, depth + 2);
                    let op = *self.rng.pick(&[Op::Add, Op::Sub, Op::Mul]);
                    if self.rng.pct(25) {
                        // the other operand is a neutral or absorbing literal: the effects of the
                        // operand still have to happen
                        let c = E::Lit(*self.rng.pick(&[0, 0, 1, -1, 2]));
                        return if self.rng.pct(50) { E::Op(Box::new(a), op, Box::new(c)) } else { E::Op(Box::new(c), op, Box::new(a)) };
                    }
                    let b = self.eff(&T::I, sc, depth + 2);
                    return E::Op(Box::new(a), op, Box::new(b));
                }
                T::D(n, args) if !self.is_codata(t) => {
                    let d = self.decl(n);
                    let x = d.xtors[self.rng.below(d.xtors.len())].clone();
                    let mut es = Vec::new();
                    for a in &x.1 {
                        let at = inst(a, args);
                        if self.is_codata(&at) { es.push(self.pure(&at, sc, depth + 2)) } else { es.push(self.eff(&at, sc, depth + 2)) }
                    }
                    return E::Ctor(x.0.to_string(), es, t.clone());
                }
                _ => {}
            }
        }
        let k = self.rng.below(100);
        if k < 30 || self.cfg.many_live && k < 55 {
            // let with possibly effectful bound term (not for codata: by-name)
            let x = self.fresh();
            let bt = if self.rng.pct(55) { T::I } else { self.random_type(true, depth) };
            let b = if self.is_codata(&bt) {
                if self.rng.pct(self.cfg.eff_codata_pct) { self.eff(&bt, sc, depth + 2) } else { self.pure(&bt, sc, depth + 1) }
            } else if self.rng.pct(60) {
                self.pure(&bt, sc, depth + 1)
            } else {
                self.eff(&bt, sc, depth + 2)
            };
            let mut sc2 = Scope { vars: sc.vars.clone() };
            sc2.vars.push((x, bt.clone(), false));
            let body = self.eff(t, &sc2, depth + 1);
            return E::Let(x, bt, Box::new(b), Box::new(body));
        }
        if k < 45 {
            // the operands of a comparison are evaluated left to right, sometimes with effects
            let (c, snd) = if self.rng.pct(self.cfg.eff_args_pct) {
                (self.eff(&T::I, sc, depth + 3), if self.rng.pct(70) { Some(Box::new(self.eff(&T::I, sc, depth + 3))) } else { None })
            } else {
                (self.pure(&T::I, sc, depth + 2), if self.rng.pct(50) { Some(Box::new(self.pure(&T::I, sc, depth + 2))) } else { None })
            };
            let a = self.eff(t, sc, depth + 1);
            let b = self.eff(t, sc, depth + 1);
            return E::If(self.rng.below(6), Box::new(c), snd, Box::new(a), Box::new(b));
        }
        if k < 58 {
            if self.rng.pct(25) {
                if self.rng.pct(40) {
                    if let Some(e) = self.dtor_on_call(t, sc, depth, false) {
                        return e;
                    }
                }
                if let Some(e) = self.dtor_on_var(t, sc, depth, true) {
                    return e;
                }
            }
            if let Some(e) = self.case_on_var(t, sc, depth, true) {
                return e;
            }
        }
        if k < 58 + self.cfg.label_pct as usize && *t == T::I {
            let l = self.fresh();
            let mut sc2 = Scope { vars: sc.vars.clone() };
            sc2.vars.push((l, T::I, true));
            let body = self.eff(t, &sc2, depth + 1);
            return E::Label(l, Box::new(body));
        }
        if k < 75 {
            let ks: Vec<usize> = sc.vars.iter().filter(|(_, vt, cv)| *cv && *vt == T::I).map(|(i, _, _)| *i).collect();
            if !ks.is_empty() {
                let v = self.pure(&T::I, sc, depth + 2);
                return E::Goto(*self.rng.pick(&ks), Box::new(v));
            }
        }
        if k < 80 && depth > 0 {
            let v = self.pure(&T::I, sc, depth + 2);
            return E::Exit(Box::new(v));
        }
        if k < 92 {
            if let Some(e) = self.call(t, sc, depth, false) {
                return e;
            }
        }
        self.pure(t, sc, depth)
    }

    fn def_body(&mut self, di: usize) -> E {
        let sig = self.sigs[di].clone();
        let sc = Scope { vars: sig.params.clone() };
        if di == 0 {
            return self.eff(&T::I, &sc, 0);
        }
        // recursion on a decreasing counter (first parameter)
        let n = sig.params[0].0;
        let same: Vec<usize> = sig.params.iter().filter(|(_, pt, cv)| !*cv && *pt == sig.ret).map(|(i, _, _)| *i).collect();
        let base = if self.is_codata(&sig.ret) && !same.is_empty() && self.rng.pct(70) {
            E::Var(*self.rng.pick(&same))
        } else if sig.pure {
            self.pure(&sig.ret, &sc, 3)
        } else {
            self.eff(&sig.ret, &sc, 4)
        };
        let step = {
            // bind m = n - 1 and allow recursive calls through `call` by temporarily shadowing literals:
            // here: one explicit recursive call with n - 1 embedded in a small context
            let m = self.fresh();
            let mut sc2 = Scope { vars: sc.vars.clone() };
            sc2.vars.push((m, T::I, false));
            let mut args = Vec::new();
            for (k, (_, pt, cv)) in sig.params.iter().enumerate() {
                if k == 0 {
                    args.push(E::Var(m));
                } else if *cv {
                    args.push(E::Var(sig.params[k].0));
                } else {
                    args.push(self.pure(pt, &sc2, 2));
                }
            }
            let rec = E::Call(di, args);
            let inner = if sig.ret == T::I && self.rng.pct(60) {
                // combine the recursive result
                let r = self.fresh();
                let mut sc3 = Scope { vars: sc2.vars.clone() };
                sc3.vars.push((r, T::I, false));
                let comb = if sig.pure { self.pure(&T::I, &sc3, 2) } else { self.eff(&T::I, &sc3, 3) };
                let comb = E::Op(Box::new(E::Var(r)), Op::Add, Box::new(comb));
                E::Let(r, T::I, Box::new(rec), Box::new(comb))
            } else {
                rec
            };
            E::Let(m, T::I, Box::new(E::Op(Box::new(E::Var(n)), Op::Sub, Box::new(E::Lit(1)))), Box::new(inner))
        };
        E::If(3, Box::new(E::Var(n)), None, Box::new(base), Box::new(step))
    }
}

// ---------------------------------------------------------------------------------------------
// printing with a naming

const POOL: [&str; 17] = ["x", "y", "z", "x0", "a0", "n", "l", "xs", "k", "share_f_0", "a", "b", "x1", "acc", "a1", "a2", "x2"];

struct Namer {
    names: BTreeMap<usize, String>,
    /// names handed out so far (reused for binders in sibling scopes)
    recent: Vec<String>,
}

fn free_vars(e: &E, out: &mut Vec<usize>) {
    match e {
        E::Lit(_) => {}
        E::Var(v) => out.push(*v),
        E::Op(a, _, b) => {
            free_vars(a, out);
            free_vars(b, out);
        }
        E::If(_, c, s, a, b) => {
            free_vars(c, out);
            if let Some(s) = s {
                free_vars(s, out);
            }
            free_vars(a, out);
            free_vars(b, out);
        }
        E::Let(x, _, b, body) => {
            free_vars(b, out);
            let mut inner = Vec::new();
            free_vars(body, &mut inner);
            out.extend(inner.into_iter().filter(|v| v != x));
        }
        E::Call(_, es) | E::Ctor(_, es, _) => es.iter().for_each(|e| free_vars(e, out)),
        E::Case(s, _, cls) => {
            free_vars(s, out);
            for (_, ids, b) in cls {
                let mut inner = Vec::new();
                free_vars(b, &mut inner);
                out.extend(inner.into_iter().filter(|v| !ids.contains(v)));
            }
        }
        E::New(cls) => {
            for (_, ids, b) in cls {
                let mut inner = Vec::new();
                free_vars(b, &mut inner);
                out.extend(inner.into_iter().filter(|v| !ids.contains(v)));
            }
        }
        E::Dtor(s, _, _, es) => {
            free_vars(s, out);
            es.iter().for_each(|e| free_vars(e, out));
        }
        E::Label(l, b) => {
            let mut inner = Vec::new();
            free_vars(b, &mut inner);
            out.extend(inner.into_iter().filter(|v| v != l));
        }
        E::Goto(l, b) => {
            out.push(*l);
            free_vars(b, out);
        }
        E::Print(_, a, b) => {
            free_vars(a, out);
            free_vars(b, out);
        }
        E::Exit(a) => free_vars(a, out),
    }
}

impl Namer {
    /// choose a (possibly shadowing) name for binder `id` whose scope is `body`
    fn choose(&mut self, rng: &mut Rng, id: usize, bodies: &[&E], also_bound: &[usize], visible: &[usize], shadow_pct: u32, shadowed: &mut bool) {
        if !rng.pct(shadow_pct) {
            self.names.insert(id, format!("v{id}"));
            return;
        }
        let mut fv = Vec::new();
        for b in bodies {
            free_vars(b, &mut fv);
        }
        let forbidden: Vec<String> = fv
            .iter()
            .filter(|v| **v != id)
            .filter_map(|v| self.names.get(v).cloned())
            .chain(also_bound.iter().filter_map(|v| self.names.get(v).cloned()))
            .collect();
        let allowed: Vec<&str> = POOL.iter().copied().filter(|n| !forbidden.iter().any(|f| f == n)).collect();
        if allowed.is_empty() {
            self.names.insert(id, format!("v{id}"));
            return;
        }
        // prefer a name that is visible (bound outside) but not referenced inside: real shadowing
        let vis: Vec<&str> = allowed.iter().copied().filter(|n| visible.iter().any(|v| self.names.get(v).map(|s| s == n).unwrap_or(false))).collect();
        // otherwise often a name that a binder in a sibling scope already carries
        let sib: Vec<&str> = allowed.iter().copied().filter(|n| self.recent.iter().any(|r| r == n)).collect();
        let n = if !vis.is_empty() && rng.pct(60) {
            vis[rng.below(vis.len())]
        } else if !sib.is_empty() && rng.pct(50) {
            sib[rng.below(sib.len())]
        } else {
            allowed[rng.below(allowed.len())]
        };
        // the name of any visible binder (variable or covariable) is reused: shadowing
        if visible.iter().any(|v| self.names.get(v).map(|s| s == n).unwrap_or(false)) {
            *shadowed = true;
        }
        self.names.insert(id, n.to_string());
        self.recent.push(n.to_string());
    }
}

fn assign(e: &E, nm: &mut Namer, rng: &mut Rng, visible: &mut Vec<usize>, pct: u32, shadowed: &mut bool) {
    match e {
        E::Lit(_) | E::Var(_) => {}
        E::Op(a, _, b) => {
            assign(a, nm, rng, visible, pct, shadowed);
            assign(b, nm, rng, visible, pct, shadowed);
        }
        E::If(_, c, s, a, b) => {
            assign(c, nm, rng, visible, pct, shadowed);
            if let Some(s) = s {
                assign(s, nm, rng, visible, pct, shadowed);
            }
            assign(a, nm, rng, visible, pct, shadowed);
            assign(b, nm, rng, visible, pct, shadowed);
        }
        E::Let(x, _, b, body) => {
            assign(b, nm, rng, visible, pct, shadowed);
            nm.choose(rng, *x, &[body], &[], visible, pct, shadowed);
            visible.push(*x);
            assign(body, nm, rng, visible, pct, shadowed);
            visible.pop();
        }
        E::Call(_, es) | E::Ctor(_, es, _) => es.iter().for_each(|e| assign(e, nm, rng, visible, pct, shadowed)),
        E::Case(s, _, cls) => {
            assign(s, nm, rng, visible, pct, shadowed);
            for (_, ids, b) in cls {
                let mut done: Vec<usize> = Vec::new();
                for id in ids {
                    nm.choose(rng, *id, &[b], &done, visible, pct, shadowed);
                    done.push(*id);
                }
                visible.extend(ids.iter().copied());
                assign(b, nm, rng, visible, pct, shadowed);
                visible.truncate(visible.len() - ids.len());
            }
        }
        E::New(cls) => {
            for (_, ids, b) in cls {
                let mut done: Vec<usize> = Vec::new();
                for id in ids {
                    nm.choose(rng, *id, &[b], &done, visible, pct, shadowed);
                    done.push(*id);
                }
                visible.extend(ids.iter().copied());
                assign(b, nm, rng, visible, pct, shadowed);
                visible.truncate(visible.len() - ids.len());
            }
        }
        E::Dtor(s, _, _, es) => {
            assign(s, nm, rng, visible, pct, shadowed);
            es.iter().for_each(|e| assign(e, nm, rng, visible, pct, shadowed));
        }
        E::Label(l, b) => {
            nm.choose(rng, *l, &[b], &[], visible, pct, shadowed);
            visible.push(*l);
            assign(b, nm, rng, visible, pct, shadowed);
            visible.pop();
        }
        E::Goto(_, b) => assign(b, nm, rng, visible, pct, shadowed),
        E::Print(_, a, b) => {
            assign(a, nm, rng, visible, pct, shadowed);
            assign(b, nm, rng, visible, pct, shadowed);
        }
        E::Exit(a) => assign(a, nm, rng, visible, pct, shadowed),
    }
}

/// names for the third spelling: like `shad`, but a binder whose name is already visible gets a unique name
fn deshadow(e: &E, shad: &Namer, out: &mut Namer, visible: &mut Vec<usize>) {
    let mut bind = |id: usize, out: &mut Namer, visible: &Vec<usize>| {
        let n = shad.names.get(&id).cloned().unwrap_or_else(|| format!("v{id}"));
        let clash = visible.iter().any(|v| out.names.get(v).map(|s| *s == n).unwrap_or(false));
        out.names.insert(id, if clash { format!("v{id}") } else { n });
    };
    match e {
        E::Lit(_) | E::Var(_) => {}
        E::Op(a, _, b) | E::Print(_, a, b) => {
            deshadow(a, shad, out, visible);
            deshadow(b, shad, out, visible);
        }
        E::If(_, c, s, a, b) => {
            deshadow(c, shad, out, visible);
            if let Some(s) = s {
                deshadow(s, shad, out, visible);
            }
            deshadow(a, shad, out, visible);
            deshadow(b, shad, out, visible);
        }
        E::Let(x, _, b, body) => {
            deshadow(b, shad, out, visible);
            bind(*x, out, visible);
            visible.push(*x);
            deshadow(body, shad, out, visible);
            visible.pop();
        }
        E::Call(_, es) | E::Ctor(_, es, _) => es.iter().for_each(|e| deshadow(e, shad, out, visible)),
        E::Case(s, _, cls) => {
            deshadow(s, shad, out, visible);
            for (_, ids, b) in cls {
                for id in ids {
                    bind(*id, out, visible);
                    visible.push(*id);
                }
                deshadow(b, shad, out, visible);
                visible.truncate(visible.len() - ids.len());
            }
        }
        E::New(cls) => {
            for (_, ids, b) in cls {
                for id in ids {
                    bind(*id, out, visible);
                    visible.push(*id);
                }
                deshadow(b, shad, out, visible);
                visible.truncate(visible.len() - ids.len());
            }
        }
        E::Dtor(s, _, _, es) => {
            deshadow(s, shad, out, visible);
            es.iter().for_each(|e| deshadow(e, shad, out, visible));
        }
        E::Label(l, b) => {
            bind(*l, out, visible);
            visible.push(*l);
            deshadow(b, shad, out, visible);
            visible.pop();
        }
        E::Goto(_, b) | E::Exit(b) => deshadow(b, shad, out, visible),
    }
}

fn lit_text(v: i64) -> String {
    if v == i64::MIN {
        "((-9223372036854775807) - 1)".into()
    } else if v < 0 {
        format!("(-{})", v.unsigned_abs())
    } else {
        v.to_string()
    }
}

fn show(e: &E, names: &dyn Fn(usize) -> String, sigs: &[DefSig], ind: usize) -> String {
    let pad = "  ".repeat(ind);
    let s = |e: &E| show(e, names, sigs, ind + 1);
    match e {
        E::Lit(v) => lit_text(*v),
        E::Var(v) => names(*v),
        E::Op(a, op, b) => {
            let o = match op {
                Op::Add => "+",
                Op::Sub => "-",
                Op::Mul => "*",
                Op::Div => "/",
                Op::Rem => "%",
            };
            // simple operands (non-negative literals, variables, calls) are written without
            // parentheses half of the time: `x * 0` and `(x) * (0)` are different syntax trees
            let operand = |e: &E| -> String {
                let t = s(e);
                let simple = matches!(e, E::Lit(v) if *v >= 0) || matches!(e, E::Var(_) | E::Call(..));
                if simple && t.bytes().map(|b| b as usize).sum::<usize>() % 2 == 0 { t } else { format!("({t})") }
            };
            format!("({} {o} {})", operand(a), operand(b))
        }
        E::If(sort, c, snd, a, b) => {
            let ops = ["==", "!=", "<", "<=", ">", ">="];
            let ct = s(c);
            // an operation as first operand is written without its own parentheses half of the time
            // (`if a - b < 0`): the comparison then has the operation itself as operand, not a
            // parenthesised term
            let simple = |e: &E| matches!(e, E::Var(_)) || matches!(e, E::Lit(v) if *v >= 0);
            let bare_op = matches!(&**c, E::Op(x, _, y) if simple(x) && simple(y) && !matches!(**y, E::Lit(0))) && ct.starts_with('(') && ct.ends_with(')') && ct.bytes().map(|b| b as usize).sum::<usize>() % 2 == 0;
            if bare_op {
                let inner = &ct[1..ct.len() - 1];
                let ops = ["==", "!=", "<", "<=", ">", ">="];
                let rhs = match snd {
                    Some(x) => format!("({})", s(x)),
                    None => "0".to_string(),
                };
                return format!("(if {inner} {} {rhs} {{\n{pad}  {}\n{pad}}} else {{\n{pad}  {}\n{pad}}})", ops[*sort], s(a), s(b));
            }
            let cond = match snd {
                Some(x) => format!("({ct}) {} ({})", ops[*sort], s(x)),
                // comparison with zero: the sugar exists with the zero on either side; which
                // spelling is used depends on the text of the operand only (no PRNG draw in the printer)
                None if (ct.len() + *sort) % 3 == 0 => {
                    let mirrored = ["==", "!=", ">", ">=", "<", "<="];
                    format!("0 {} ({ct})", mirrored[*sort])
                }
                None => format!("({ct}) {} 0", ops[*sort]),
            };
            format!("(if {cond} {{\n{pad}  {}\n{pad}}} else {{\n{pad}  {}\n{pad}}})", s(a), s(b))
        }
        E::Let(x, t, b, body) => format!("(let {}: {} = {};\n{pad}{})", names(*x), t.show(), s(b), show(body, names, sigs, ind)),
        E::Call(d, es) if *d == usize::MAX => format!("repeat0({})", es.iter().map(&s).collect::<Vec<_>>().join(", ")),
        E::Call(d, es) => format!("{}({})", sigs[*d].name, es.iter().map(&s).collect::<Vec<_>>().join(", ")),
        E::Ctor(n, es, _) if es.is_empty() => n.clone(),
        E::Ctor(n, es, _) => format!("{n}({})", es.iter().map(&s).collect::<Vec<_>>().join(", ")),
        E::Case(sc, t, cls) => {
            let cs: Vec<String> = cls
                .iter()
                .map(|(n, ids, b)| {
                    let bs = if ids.is_empty() { String::new() } else { format!("({})", ids.iter().map(|i| names(*i)).collect::<Vec<_>>().join(", ")) };
                    format!("{pad}  {n}{bs} => {}", s(b))
                })
                .collect();
            format!("({}).case{} {{\n{}\n{pad}}}", s(sc), t.targs(), cs.join(",\n"))
        }
        E::New(cls) => {
            let cs: Vec<String> = cls
                .iter()
                .map(|(n, ids, b)| {
                    let bs = if ids.is_empty() { String::new() } else { format!("({})", ids.iter().map(|i| names(*i)).collect::<Vec<_>>().join(", ")) };
                    format!("{pad}  {n}{bs} => {}", s(b))
                })
                .collect();
            format!("new {{\n{}\n{pad}}}", cs.join(",\n"))
        }
        E::Dtor(sc, t, n, es) => {
            let a = if es.is_empty() { String::new() } else { format!("({})", es.iter().map(&s).collect::<Vec<_>>().join(", ")) };
            format!("({}).{n}{}{a}", s(sc), t.targs())
        }
        E::Label(l, b) => format!("(label {} {{\n{pad}  {}\n{pad}}})", names(*l), s(b)),
        E::Goto(l, b) => format!("(goto {}({}))", names(*l), s(b)),
        E::Print(nl, a, b) => format!("({}({});\n{pad}{})", if *nl { "println_i64" } else { "print_i64" }, s(a), show(b, names, sigs, ind)),
        E::Exit(a) => format!("(exit ({}))", s(a)),
    }
}

fn size(e: &E) -> usize {
    let mut v = Vec::new();
    free_vars(e, &mut v);
    1 + v.len()
}

pub fn generate(rng: &mut Rng, cfg: &FunCfg) -> FunProg {
    let lib = library();
    let mut g = G { rng, cfg: cfg.clone(), lib, next_id: 0, budget: cfg.size as isize, sigs: Vec::new(), elems: vec![T::I], cur_def: 0, in_rec: 0 };
    let pool = [T::D("List".into(), vec![T::I]), T::D("Pair".into(), vec![T::I, T::I]), T::D("Opt".into(), vec![T::I]), T::D("Color".into(), vec![])];
    for _ in 1..cfg.type_instances {
        let t = pool[g.rng.below(pool.len())].clone();
        g.elems.push(t);
    }
    // rarely an instance whose printed name is longer than a line of the pretty printer
    if cfg.type_instances > 1 && g.rng.pct(4) {
        let mut t = T::D("Opt".into(), vec![T::I]);
        while t.show().len() <= 104 {
            t = match g.rng.below(3) {
                0 => T::D("Pair".into(), vec![t.clone(), T::D("List".into(), vec![t])]),
                1 => T::D("Pair".into(), vec![T::D("Res".into(), vec![T::I]), t]),
                _ => T::D("List".into(), vec![T::D("Pair".into(), vec![t, T::D("Opt".into(), vec![T::I])])]),
            };
        }
        g.elems.push(t);
    }
    // sometimes nested instances and codata inside data (List[Fun[i64, i64]], Pair[List[i64], Opt[..]])
    if cfg.type_instances > 1 && g.rng.pct(35) {
        let inner = g.elems[g.rng.below(g.elems.len())].clone();
        let t = match g.rng.below(4) {
            0 => T::D("List".into(), vec![inner]),
            1 => T::D("Pair".into(), vec![inner, T::D("Opt".into(), vec![T::I])]),
            2 if cfg.codata_pct > 0 => T::D("Fun".into(), vec![T::I, T::I]),
            _ => T::D("Res".into(), vec![inner]),
        };
        g.elems.push(t);
    }
    // signatures
    let mut sigs = Vec::new();
    let mut main_params = Vec::new();
    for _ in 0..cfg.n_args {
        main_params.push((g.fresh(), T::I, false));
    }
    sigs.push(DefSig { name: "main".into(), params: main_params, ret: T::I, pure: false });
    let def_names = ["f", "g", "helper", "loop0", "go", "x0f"];
    for i in 1..cfg.n_defs {
        let pure = g.rng.pct(55);
        let mut params = vec![(g.fresh(), T::I, false)];
        let np = g.rng.below(if cfg.many_live { 11 } else { 4 });
        if g.rng.pct(30) {
            // several parameters of one data type: callers tend to pass the same variables repeatedly
            let t = loop {
                let t = g.random_type(false, 0);
                if t != T::I {
                    break t;
                }
            };
            for _ in 0..4 + g.rng.below(3) {
                params.push((g.fresh(), t.clone(), false));
            }
        } else {
            for _ in 0..np {
                let t = if cfg.many_live && g.rng.pct(60) { T::I } else { g.random_type(true, 0) };
                params.push((g.fresh(), t, false));
            }
        }
        if !pure && g.rng.pct(cfg.label_pct) {
            params.push((g.fresh(), T::I, true));
            if g.rng.pct(35) {
                params.push((g.fresh(), T::I, true));
            }
        }
        // (a fifth of the non-integer results are codata: `def idf(g: Fun[..]): Fun[..] { g }`)
        let mut ret = if g.rng.pct(65) { T::I } else { let cd = g.rng.pct(50); g.random_type(cd, 0) };
        if g.is_codata(&ret) {
            // a definition that can hand one of its codata parameters back as it is
            if g.rng.pct(60) {
                ret = T::D("Fun".into(), vec![T::I, T::I]);
            }
            params.insert(1, (g.fresh(), ret.clone(), false));
        }
        // now and then a user definition carries exactly the kind of name the compiler invents for
        // shared continuations and lifted statements of an earlier definition
        let name = if cfg.shadow_pct > 0 && g.rng.pct(12) {
            let earlier = sigs[g.rng.below(sigs.len())].name.clone();
            match g.rng.below(3) {
                0 => format!("share_{earlier}_{}", g.rng.below(3)),
                1 => format!("lift_{earlier}__{}", g.rng.below(40)),
                _ => format!("share_main_{}", g.rng.below(2)),
            }
        } else if g.rng.pct(6) {
            // a helper whose name merely starts like the entry point's
            format!("{}{}", ["main_helper", "mainLoop", "main2"][g.rng.below(3)], i)
        } else {
            format!("{}{}", def_names[i % def_names.len()], i)
        };
        let name = if sigs.iter().any(|s: &DefSig| s.name == name) { format!("{name}x{i}") } else { name };
        sigs.push(DefSig { name, params, ret, pure });
    }
    g.sigs = sigs.clone();
    let mut bodies = Vec::new();
    let per = (cfg.size / cfg.n_defs.max(1)).max(5) as isize;
    for di in (0..cfg.n_defs).rev() {
        g.budget = if di == 0 { per * 2 } else { per };
        // a definition may only call definitions with a larger index (plus itself through its counter)
        g.cur_def = di;
        let mut b = g.def_body(di);
        // the self-call in def_body refers to the right index already
        fix_invalid_calls(&mut b);
        bodies.push((di, b));
    }
    bodies.sort_by_key(|(i, _)| *i);
    // a third of the programs start main with a print of a literal (see the printer below)
    if g.rng.pct(33) {
        let k = g.rng.range(0, 99);
        let nl = g.rng.pct(50);
        let old = std::mem::replace(&mut bodies[0].1, E::Lit(0));
        bodies[0].1 = E::Print(nl, Box::new(E::Lit(k)), Box::new(old));
    }
    // naming
    let mut unique = Namer { names: BTreeMap::new(), recent: Vec::new() };
    let mut shad = Namer { names: BTreeMap::new(), recent: Vec::new() };
    let mut desh = Namer { names: BTreeMap::new(), recent: Vec::new() };
    let mut has_shadowing = false;
    let mut text_u = String::new();
    let mut text_s = String::new();
    let mut text_d = String::new();
    let used_types: Vec<Decl> = g.lib.clone();
    for d in &used_types {
        text_u.push_str(&decl_text(d));
        text_s.push_str(&decl_text(d));
        text_d.push_str(&decl_text(d));
    }
    let prelude = "\ndef repeat0(x: i64): Stream[i64] {\n  new { head => x, tail => repeat0(x) }\n}\n";
    text_u.push_str(prelude);
    text_s.push_str(prelude);
    text_d.push_str(prelude);
    let mut total = 0;
    for (di, b) in &bodies {
        let sig = &sigs[*di];
        total += size(b);
        let mut visible: Vec<usize> = Vec::new();
        for (k, (id, _, _)) in sig.params.iter().enumerate() {
            unique.names.insert(*id, format!("v{id}"));
            let pn = ["n", "x", "y", "l", "a", "b", "z", "xs", "k"];
            let pname = if k < pn.len() { pn[k].to_string() } else { format!("{}{}", pn[k % pn.len()], k / pn.len()) };
            // covariable parameters are sometimes spelled like the covariables the compiler invents
            let cv = sig.params[k].2;
            let pname = if cv && g.rng.pct(50) { ["a0", "a1", "a2"][g.rng.below(3)].to_string() } else { pname };
            let pname = if sig.params[..k].iter().any(|(o, _, _)| shad.names.get(o) == Some(&pname)) { format!("{pname}q{k}") } else { pname };
            shad.names.insert(*id, if g.cfg.shadow_pct > 0 { pname } else { format!("v{id}") });
            visible.push(*id);
        }
        let mut dummy = false;
        assign(b, &mut unique, g.rng, &mut visible.clone(), 0, &mut dummy);
        assign(b, &mut shad, g.rng, &mut visible.clone(), g.cfg.shadow_pct, &mut has_shadowing);
        for (id, _, _) in sig.params.iter() {
            let n = shad.names.get(id).cloned().unwrap();
            desh.names.insert(*id, n);
        }
        deshadow(b, &shad, &mut desh, &mut visible);
        let comments = {
            let mut mk = |rng: &mut Rng| -> String {
                if !rng.pct(20) {
                    return String::new();
                }
                let eol = *rng.pick(&["\n", "\r\n", "\r", "\n"]);
                format!("// note {} on {}{eol}", rng.below(100), sig.name)
            };
            (mk(g.rng), mk(g.rng))
        };
        for (nm, text) in [(&unique, &mut text_u), (&shad, &mut text_s), (&desh, &mut text_d)] {
            let names = |i: usize| nm.names.get(&i).cloned().unwrap_or_else(|| format!("v{i}"));
            let ps: Vec<String> = sig
                .params
                .iter()
                .map(|(id, t, cv)| if *cv { format!("{} :cns {}", names(*id), t.show()) } else { format!("{}: {}", names(*id), t.show()) })
                .collect();
            // comments, ended by LF, CR LF or a lone CR (all three end a line for the lexer)
            let (c1, c2) = (&comments.0, &comments.1);
            // a leading print of a literal is written as a line of its own, without parentheses,
            // directly behind the comment: a lexer that lets the comment run on would swallow a
            // complete statement and leave a program that still parses
            let body_text = match b {
                E::Print(nl, a, next) if matches!(**a, E::Lit(v) if v >= 0) => {
                    format!("{}({});\n  {}", if *nl { "println_i64" } else { "print_i64" }, show(a, &names, &sigs, 1), show(next, &names, &sigs, 1))
                }
                _ => show(b, &names, &sigs, 1),
            };
            text.push_str(&format!("\n{c1}def {}({}): {} {{\n  {c2}{body_text}\n}}\n", sig.name, ps.join(", "), sig.ret.show()));
        }
    }
    let args: Vec<i64> = (0..cfg.n_args)
        .map(|_| match g.rng.below(5) {
            0 => *g.rng.pick(&BIG_LITS),
            1 => g.rng.next() as i64,
            _ => g.rng.range(-5, 30),
        })
        .collect();
    let tree = std::rc::Rc::new(FunTree { sigs: sigs.clone(), bodies: bodies.iter().map(|(_, b)| b.clone()).collect() });
    FunProg { shadowed: text_s, unique: text_u, deshadowed: text_d, args, has_shadowing, size: total, tree }
}

/// calls to the impossible definition (usize::MAX) are replaced by a literal-free fallback
fn fix_invalid_calls(e: &mut E) {
    match e {
        E::Call(d, es) => {

            es.iter_mut().for_each(fix_invalid_calls);
        }
        E::Lit(_) | E::Var(_) => {}
        E::Op(a, _, b) | E::Print(_, a, b) => {
            fix_invalid_calls(a);
            fix_invalid_calls(b);
        }
        E::If(_, c, s, a, b) => {
            fix_invalid_calls(c);
            if let Some(s) = s {
                fix_invalid_calls(s);
            }
            fix_invalid_calls(a);
            fix_invalid_calls(b);
        }
        E::Let(_, _, a, b) => {
            fix_invalid_calls(a);
            fix_invalid_calls(b);
        }
        E::Ctor(_, es, _) => es.iter_mut().for_each(fix_invalid_calls),
        E::Case(s, _, cls) => {
            fix_invalid_calls(s);
            cls.iter_mut().for_each(|(_, _, b)| fix_invalid_calls(b));
        }
        E::New(cls) => cls.iter_mut().for_each(|(_, _, b)| fix_invalid_calls(b)),
        E::Dtor(s, _, _, es) => {
            fix_invalid_calls(s);
            es.iter_mut().for_each(fix_invalid_calls);
        }
        E::Label(_, b) | E::Goto(_, b) | E::Exit(b) => fix_invalid_calls(b),
    }
}

/// programs for engine K: biased to many instantiated data/codata types
pub fn generate_for_k(rng: &mut Rng) -> String {
    let mut cfg = FunCfg::swarm(rng, 40);
    cfg.type_instances = 3 + rng.below(3);
    cfg.codata_pct = 40;
    // half of the programs use the names a person would write (x, a0, a1, share_f_0 ...), the
    // others globally unique ones
    if rng.pct(50) {
        cfg.shadow_pct = 40;
        return generate(rng, &cfg).shadowed;
    }
    cfg.shadow_pct = 0;
    generate(rng, &cfg).unique
}
