//! Keyed SplitMix64 streams. Every random choice of the simulator comes from a stream derived from
//! (VERIF_SEED, run index, purpose), so adding a draw in one place never shifts another.

#[derive(Clone, Debug)]
pub struct Rng {
    s: u64,
}

fn mix(mut z: u64) -> u64 {
    z = (z ^ (z >> 30)).wrapping_mul(0xbf58476d1ce4e5b9);
    z = (z ^ (z >> 27)).wrapping_mul(0x94d049bb133111eb);
    z ^ (z >> 31)
}

pub fn hash_str(s: &str) -> u64 {
    let mut h = 0xcbf29ce484222325u64;
    for b in s.bytes() {
        h ^= b as u64;
        h = h.wrapping_mul(0x100000001b3);
    }
    mix(h)
}

impl Rng {
    pub fn new(seed: u64) -> Rng {
        Rng { s: mix(seed ^ 0x9e3779b97f4a7c15) }
    }
    /// Derive an independent stream for (seed, run, purpose).
    pub fn keyed(seed: u64, run: u64, purpose: &str) -> Rng {
        let k = mix(seed.wrapping_mul(0x9e3779b97f4a7c15) ^ mix(run.wrapping_add(0x1234567))) ^ hash_str(purpose);
        Rng::new(k)
    }
    pub fn fork(&mut self, purpose: &str) -> Rng {
        let k = self.next() ^ hash_str(purpose);
        Rng::new(k)
    }
    pub fn next(&mut self) -> u64 {
        self.s = self.s.wrapping_add(0x9e3779b97f4a7c15);
        mix(self.s)
    }
    /// uniform in 0..n (n > 0)
    pub fn below(&mut self, n: usize) -> usize {
        if n <= 1 {
            return 0;
        }
        (self.next() % n as u64) as usize
    }
    /// uniform in lo..=hi
    pub fn range(&mut self, lo: i64, hi: i64) -> i64 {
        if hi <= lo {
            return lo;
        }
        let span = (hi - lo) as u64 + 1;
        lo + (self.next() % span) as i64
    }
    /// true with probability pct/100
    pub fn pct(&mut self, pct: u32) -> bool {
        (self.next() % 100) < pct as u64
    }
    pub fn pick<'a, T>(&mut self, xs: &'a [T]) -> &'a T {
        &xs[self.below(xs.len())]
    }
    pub fn shuffle<T>(&mut self, xs: &mut [T]) {
        for i in (1..xs.len()).rev() {
            let j = self.below(i + 1);
            xs.swap(i, j);
        }
    }
}
