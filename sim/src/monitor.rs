//! Heap monitor: the C09 invariant (partition, exact counts, list shapes, confinement of the
//! frontier) and the C10 footprint checks, evaluated at statement-boundary markers.
//! Encodes the memory-manager state machine of DESIGN.md Appendix B, not the backends' code.

use crate::mach::*;
use std::collections::BTreeMap;

/// slack (in blocks) for the C10 checks; the current tree needs exactly 1
pub const SLACK: usize = 8;

#[derive(Clone, Debug, Default)]
pub struct HeapShape {
    pub frontier: u64,
    pub l: Vec<u64>,
    pub d: Vec<u64>,
    /// blocks reachable from roots
    pub r: usize,
    /// blocks waiting beneath deferred blocks (not reachable from roots)
    pub w: usize,
    /// stored header per block in R∪W (filled only when a snapshot is recorded)
    pub counts: BTreeMap<u64, u64>,
}

#[derive(Clone, Copy, PartialEq, Eq, Debug)]
enum St {
    L,
    D,
    R,
    W,
}

fn word(mem: &Mem, a: u64, what: &str) -> Res<u64> {
    match mem.peek(a) {
        Some(v) if v.is_def() => Ok(v.v),
        Some(_) => Err(Viol::new(Class::Heap, format!("{what}: undefined word at heap+{:#x}", a.wrapping_sub(mem.heap_base)))),
        None => Err(Viol::new(Class::Heap, format!("{what}: address {a:#x} outside the heap"))),
    }
}

fn check_block(mem: &Mem, a: u64, frontier: Option<u64>, what: &str) -> Res<()> {
    if !mem.in_heap(a) || (a - mem.heap_base) % BLOCK != 0 {
        return Err(Viol::new(Class::Heap, format!("{what}: {a:#x} is not a block address (heap base {:#x})", mem.heap_base)));
    }
    if let Some(f) = frontier {
        if a >= f {
            return Err(Viol::new(
                Class::Heap,
                format!("{what}: block heap+{:#x} at or above the frontier heap+{:#x}", a - mem.heap_base, f - mem.heap_base),
            ));
        }
    }
    Ok(())
}

/// Evaluate the C09 invariant. `roots` are the first temporaries of all non-ext variables of the
/// marker's environment (one entry per variable occurrence).
pub fn check_heap(mem: &Mem, heap_reg: V, free_reg: V, roots: &[(usize, V)], want_counts: bool) -> Res<HeapShape> {
    if !heap_reg.is_def() || !free_reg.is_def() {
        return Err(Viol::new(Class::Heap, "heap or free register undefined at statement boundary"));
    }
    let rel = |a: u64| a.wrapping_sub(mem.heap_base);
    let max_blocks = (mem.heap_cap_words / 8) as u64;
    // deferred list and frontier
    let mut d = Vec::new();
    let mut cur = free_reg.v;
    let frontier;
    loop {
        if cur >= mem.heap_end() && cur < mem.heap_end() + 64 * BLOCK && (cur - mem.heap_base) % BLOCK == 0 {
            return Err(Viol::new(Class::Capacity, "simulated heap capacity exceeded"));
        }
        check_block(mem, cur, None, "deferred list")?;
        let h = word(mem, cur, "deferred list link")?;
        if h == 0 {
            frontier = cur;
            break;
        }
        d.push(cur);
        if d.len() as u64 > max_blocks {
            return Err(Viol::new(Class::Heap, "deferred list is cyclic"));
        }
        cur = h;
    }
    if mem.heap_hwm > frontier {
        return Err(Viol::new(
            Class::Heap,
            format!("memory at heap+{:#x} was written at or above the frontier heap+{:#x}", rel(mem.heap_hwm) - 8, rel(frontier)),
        ));
    }
    for i in 0..8 {
        if word(mem, frontier + 8 * i, "frontier block")? != 0 {
            return Err(Viol::new(Class::Heap, "frontier block is not zero"));
        }
    }
    let nblocks = (frontier - mem.heap_base) / BLOCK;
    // per block below the frontier: state (None = not accounted for yet) and references counted
    let mut state: Vec<Option<St>> = vec![None; nblocks as usize];
    let mut refs: Vec<u32> = vec![0; nblocks as usize];
    let mut accounted = 0u64;
    let idx = |a: u64| ((a - mem.heap_base) / BLOCK) as usize;
    // linear list
    let mut l = Vec::new();
    let mut cur = heap_reg.v;
    loop {
        check_block(mem, cur, Some(frontier), "linear free list")?;
        if state[idx(cur)].replace(St::L).is_some() {
            return Err(Viol::new(Class::Heap, format!("linear free list is cyclic at heap+{:#x}", rel(cur))));
        }
        accounted += 1;
        l.push(cur);
        let h = word(mem, cur, "linear list link")?;
        if h == 0 {
            break;
        }
        cur = h;
    }
    for b in &d {
        check_block(mem, *b, Some(frontier), "deferred list")?;
        match state[idx(*b)].replace(St::D) {
            None => accounted += 1,
            Some(St::L) => {
                return Err(Viol::new(Class::Heap, format!("block heap+{:#x} is on both free lists", rel(*b))));
            }
            Some(_) => {
                return Err(Viol::new(Class::Heap, format!("deferred list is cyclic at heap+{:#x} (block released twice)", rel(*b))));
            }
        }
    }
    // reachable from roots; the description of where a pointer was found is only built on failure
    #[derive(Clone, Copy)]
    enum From {
        Root(usize),
        Field(u64, u64),
        DField(u64, u64),
        WField(u64, u64),
    }
    let text = |f: From| -> String {
        match f {
            From::Root(pos) => format!("root at position {pos}"),
            From::Field(f, b) => format!("field {f} of block heap+{:#x}", rel(b)),
            From::DField(f, b) => format!("field {f} of deferred block heap+{:#x}", rel(b)),
            From::WField(f, b) => format!("field {f} of waiting block heap+{:#x}", rel(b)),
        }
    };
    let mut work: Vec<u64> = Vec::new();
    let mut visit = |p: u64, st: St, from: From, state: &mut Vec<Option<St>>, work: &mut Vec<u64>, refs: &mut Vec<u32>, accounted: &mut u64| -> Res<()> {
        if !mem.in_heap(p) || (p - mem.heap_base) % BLOCK != 0 || p >= frontier {
            check_block(mem, p, Some(frontier), &text(from))?;
        }
        let i = idx(p);
        refs[i] += 1;
        match state[i] {
            None => {
                state[i] = Some(st);
                *accounted += 1;
                work.push(p);
                Ok(())
            }
            Some(St::L) => Err(Viol::new(
                Class::Heap,
                format!("{}: block heap+{:#x} is referenced but on the linear free list (use after release)", text(from), rel(p)),
            )),
            Some(St::D) => Err(Viol::new(
                Class::Heap,
                format!("{}: block heap+{:#x} is referenced but on the deferred free list (use after release)", text(from), rel(p)),
            )),
            Some(_) => Ok(()),
        }
    };
    for (pos, rv) in roots {
        if !rv.is_def() {
            return Err(Viol::new(Class::Heap, format!("root of variable at position {pos} is undefined")));
        }
        if rv.v != 0 {
            visit(rv.v, St::R, From::Root(*pos), &mut state, &mut work, &mut refs, &mut accounted)?;
        }
    }
    let mut r = 0usize;
    while let Some(b) = work.pop() {
        r += 1;
        for f in 0..3u64 {
            let p = word(mem, b + 16 + 16 * f, "field of reachable block")?;
            if p != 0 {
                visit(p, St::R, From::Field(f, b), &mut state, &mut work, &mut refs, &mut accounted)?;
            }
        }
    }
    // waiting beneath deferred blocks
    let mut w = 0usize;
    for b in &d {
        for f in 0..3u64 {
            let p = word(mem, *b + 16 + 16 * f, "field of deferred block")?;
            if p != 0 {
                visit(p, St::W, From::DField(f, *b), &mut state, &mut work, &mut refs, &mut accounted)?;
            }
        }
    }
    while let Some(b) = work.pop() {
        w += 1;
        for f in 0..3u64 {
            let p = word(mem, b + 16 + 16 * f, "field of waiting block")?;
            if p != 0 {
                visit(p, St::W, From::WField(f, b), &mut state, &mut work, &mut refs, &mut accounted)?;
            }
        }
    }
    // cover
    if accounted != nblocks {
        // find a lost block for the message
        let lost = state.iter().position(|s| s.is_none()).map(|i| mem.heap_base + i as u64 * BLOCK);
        return Err(Viol::new(
            Class::Heap,
            format!(
                "leak: {} blocks below the frontier but only {} accounted for (L={} D={} R={} W={}); first lost block heap+{:#x}",
                nblocks,
                accounted,
                l.len(),
                d.len(),
                r,
                w,
                lost.map(rel).unwrap_or(0)
            ),
        ));
    }
    // exact counts
    let mut counts = BTreeMap::new();
    for (i, st) in state.iter().enumerate() {
        if *st == Some(St::R) || *st == Some(St::W) {
            let b = mem.heap_base + i as u64 * BLOCK;
            let h = word(mem, b, "header")?;
            let n = refs[i] as u64;
            if want_counts {
                counts.insert(b, h);
            }
            if h.wrapping_add(1) != n {
                return Err(Viol::new(
                    Class::Heap,
                    format!("block heap+{:#x}: stored count {} but {} reference(s) exist (expected stored = references - 1)", rel(b), h as i64, n),
                ));
            }
        }
    }
    Ok(HeapShape { frontier, l, d, r, w, counts })
}

/// Tolerant variant used by the footprint monitor once the strict invariant is already broken
/// (e.g. after a leak): best-effort frontier, list lengths and reachable set.
pub fn loose_shape(mem: &Mem, heap_reg: V, free_reg: V, roots: &[(usize, V)]) -> Option<HeapShape> {
    let valid = |a: u64| mem.in_heap(a) && (a - mem.heap_base) % BLOCK == 0;
    let max_blocks = (mem.heap_cap_words / 8) as usize;
    let mut seen: std::collections::BTreeSet<u64> = Default::default();
    let mut d = Vec::new();
    let mut cur = free_reg.v;
    let frontier = loop {
        if !valid(cur) || d.len() > max_blocks || !seen.insert(cur) {
            return None;
        }
        let h = mem.peek(cur)?.v;
        if h == 0 {
            break cur;
        }
        d.push(cur);
        cur = h;
    };
    let mut l = Vec::new();
    let mut cur = heap_reg.v;
    while valid(cur) && cur < frontier && seen.insert(cur) {
        l.push(cur);
        let h = mem.peek(cur)?.v;
        if h == 0 {
            break;
        }
        cur = h;
    }
    let mut reach = |start: Vec<u64>, seen: &mut std::collections::BTreeSet<u64>| -> usize {
        let mut n = 0;
        let mut work = start;
        while let Some(b) = work.pop() {
            if !valid(b) || b >= frontier || !seen.insert(b) {
                continue;
            }
            n += 1;
            for f in 0..3u64 {
                if let Some(p) = mem.peek(b + 16 + 16 * f) {
                    if p.v != 0 {
                        work.push(p.v);
                    }
                }
            }
        }
        n
    };
    let r = reach(roots.iter().map(|(_, v)| v.v).filter(|v| *v != 0).collect(), &mut seen);
    let mut from_d = Vec::new();
    for b in &d {
        for f in 0..3u64 {
            if let Some(p) = mem.peek(*b + 16 + 16 * f) {
                if p.v != 0 {
                    from_d.push(p.v);
                }
            }
        }
    }
    let w = reach(from_d, &mut seen);
    Some(HeapShape { frontier, l, d, r, w, counts: Default::default() })
}

/// C10 state carried across markers of one execution
#[derive(Clone, Debug, Default)]
pub struct Footprint {
    pub peak_r: usize,
    pub prev_frontier: u64,
    pub max_frontier_blocks: usize,
    pub bumps_seen: u64,
}

impl Footprint {
    pub fn at_marker(&mut self, mem: &Mem, shape: &HeapShape, consecutive: bool, stride: u64) -> Res<()> {
        // when boundaries are sampled (large heaps) the peak of reachable blocks is known only up to
        // what the unsampled statements in between can allocate (at most 4 blocks each)
        let slack = SLACK + 4 * (stride as usize - 1);
        self.peak_r = self.peak_r.max(shape.r);
        let fb = ((shape.frontier - mem.heap_base) / BLOCK) as usize;
        self.max_frontier_blocks = self.max_frontier_blocks.max(fb);
        if fb > self.peak_r + slack {
            return Err(Viol::new(
                Class::Footprint,
                format!("frontier at {} blocks but at most {} blocks were ever simultaneously reachable (slack {})", fb, self.peak_r, slack),
            ));
        }
        if self.prev_frontier != 0 && shape.frontier > self.prev_frontier && consecutive {
            self.bumps_seen += 1;
            // fresh memory was taken during the last statement: both lists must have been empty,
            // so (up to the reserve) no free block may be left now
            let free_now = shape.l.len() + shape.d.len() + shape.w;
            if free_now > SLACK {
                return Err(Viol::new(
                    Class::Footprint,
                    format!(
                        "fresh memory taken (frontier {} -> {} blocks) although {} free blocks exist (L={} D={} W={})",
                        (self.prev_frontier - mem.heap_base) / BLOCK,
                        fb,
                        free_now,
                        shape.l.len(),
                        shape.d.len(),
                        shape.w
                    ),
                ));
            }
        }
        self.prev_frontier = shape.frontier;
        Ok(())
    }
}
