//! Engine K — compile-process simulator for C17. The real front end, middle end and back ends
//! run unmodified inside "process instances" (fresh OS threads whose hash keys come from the
//! getrandom seam) after seeded histories of earlier compilations; every printable stage is
//! compared byte for byte, assembly modulo consistent renaming of labels.

use crate::orch::{KnownFile, verif_dir, repo_dir, known_match, load_known};
use crate::prng::{Rng, hash_str};
use crate::seam;
use printer::{Print, PrintCfg};
use serde::{Deserialize, Serialize};
use std::collections::{BTreeMap, BTreeSet};
use std::io::{BufRead, BufReader, Write};
use std::process::{Command, Stdio};

pub const STAGES: [&str; 7] = ["core", "focused", "axcut", "linearized", "x86_64", "aarch64", "rv64"];

fn io_string<T: Print>(t: &T) -> String {
    let mut v: Vec<u8> = Vec::new();
    t.print_io(&PrintCfg::default(), &mut v).expect("print_io");
    String::from_utf8_lossy(&v).into_owned()
}

/// the same calls, in the same order, as `Driver::print_*` makes them
pub fn renderings(src: &str) -> Result<Vec<String>, String> {
    let parsed = fun::parser::parse_module(src).map_err(|e| format!("parse error: {e:?}"))?;
    let checked = parsed.check().map_err(|e| format!("type error: {e:?}"))?;
    let compiled = fun2core::program::compile_prog(checked);
    let mut out = Vec::new();
    out.push(io_string(&compiled));
    let focused = compiled.focus();
    out.push(io_string(&focused));
    let shrunk = core2axcut::program::shrink_prog(focused);
    out.push(io_string(&shrunk));
    let mut linearized = shrunk;
    linearized.linearize();
    out.push(io_string(&linearized));
    let guard = |f: Box<dyn FnOnce() -> String + '_>| -> String {
        match std::panic::catch_unwind(std::panic::AssertUnwindSafe(f)) {
            Ok(s) => s,
            Err(e) => format!("PANIC: {}", seam::panic_msg(&e)),
        }
    };
    let l1 = linearized.clone();
    out.push(guard(Box::new(move || {
        let code = axcut2backend::coder::compile::<axcut2x86_64::Backend, _, _, _>(l1);
        axcut2x86_64::into_routine::into_x86_64_routine(code).print_to_string(None)
    })));
    let l2 = linearized.clone();
    out.push(guard(Box::new(move || {
        let code = axcut2backend::coder::compile::<axcut2aarch64::Backend, _, _, _>(l2);
        axcut2aarch64::into_routine::into_aarch64_routine(code).print_to_string(None)
    })));
    let l3 = linearized;
    out.push(guard(Box::new(move || {
        let code = axcut2backend::coder::compile::<axcut2rv64::Backend, _, _, _>(l3);
        axcut2rv64::into_routine::into_rv64_routine(code)
    })));
    Ok(out)
}

/// Rename every token that is defined as a label in the file, consistently at all non-comment
/// occurrences, to the order of its first definition ("up to the numbering of generated labels").
pub fn canon_labels(asm: &str) -> String {
    let is_comment = |l: &str| {
        let t = l.trim_start();
        t.starts_with(';') || t.starts_with("//")
    };
    let mut defs: BTreeMap<String, usize> = BTreeMap::new();
    for l in asm.lines() {
        if is_comment(l) {
            continue;
        }
        if let Some(name) = l.trim().strip_suffix(':') {
            if !name.contains(char::is_whitespace) {
                let n = defs.len();
                defs.entry(name.to_string()).or_insert(n);
            }
        }
    }
    let mut out = String::with_capacity(asm.len());
    for l in asm.lines() {
        if is_comment(l) {
            out.push_str(l);
            out.push('\n');
            continue;
        }
        let mut tok = String::new();
        let flush = |tok: &mut String, out: &mut String| {
            if !tok.is_empty() {
                match defs.get(tok.as_str()) {
                    Some(n) => out.push_str(&format!("L#{n}")),
                    None => out.push_str(tok),
                }
                tok.clear();
            }
        };
        for ch in l.chars() {
            if ch.is_alphanumeric() || ch == '_' || ch == '.' || ch == '$' {
                tok.push(ch);
            } else {
                flush(&mut tok, &mut out);
                out.push(ch);
            }
        }
        flush(&mut tok, &mut out);
        out.push('\n');
    }
    out
}

pub fn canon(stage: usize, text: &str) -> String {
    if stage >= 4 { canon_labels(text) } else { text.to_string() }
}

#[derive(Serialize, Deserialize, Clone, Debug)]
pub enum Step {
    /// compile this source through all stages (result discarded)
    Compile(String),
}

#[derive(Serialize, Deserialize, Clone, Debug)]
pub struct Instance {
    /// render through the real `driver::Driver` and its files under ./target_scc (the repeated
    /// compilations then go through the same Driver object, i.e. its caches)
    #[serde(default)]
    pub via_driver: bool,
    pub keys: u64,
    /// earlier compilations in the same process instance
    pub history: Vec<Step>,
    /// how often the program itself is compiled before the rendering that is compared
    pub repeat: usize,
    /// via_driver only: seed of the order in which the stages are requested from the Driver
    /// (0 = Core, focused, AxCut, linearized, x86-64, AArch64, RISC-V)
    #[serde(default)]
    pub order: u64,
}

#[derive(Serialize, Deserialize, Clone, Debug)]
pub struct KReplay {
    pub engine: String,
    pub property: String,
    pub class: String,
    pub stage: String,
    pub message: String,
    pub verif_seed: u64,
    pub name: String,
    pub source: String,
    pub a: Instance,
    pub b: Instance,
    pub minimised: bool,
    /// set for findings of the command-line phase (the instances are unused then)
    #[serde(default)]
    pub cli: Option<CliCase>,
    /// (tier, worker index, number of workers) of the worker process that found it: a finding
    /// that depends on everything that process did before (e.g. the process-wide label counter)
    /// is reproduced by running that worker again
    #[serde(default)]
    pub worker: Option<(String, u64, u64)>,
}

/// the same stages through `driver::Driver::print_*` and the files it writes. `history` programs
/// are compiled first by the same Driver object from files with the same name in other
/// directories; `order` seeds the order in which stages (and plain stage accessors) are requested.
pub fn renderings_via_driver(src: &str, repeat: usize, order: u64, history: &[String]) -> Result<Vec<String>, String> {
    use driver::paths::Paths;
    use driver::{Driver, PrintMode};
    let dir = format!("{}/work/kd-{}-{:?}", verif_dir(), std::process::id(), std::thread::current().id()).replace(['(', ')'], "");
    std::fs::create_dir_all(&dir).map_err(|e| e.to_string())?;
    let old = std::env::current_dir().map_err(|e| e.to_string())?;
    std::env::set_current_dir(&dir).map_err(|e| e.to_string())?;
    // one request to the Driver; failures of the code generators are caught by the caller
    fn request(d: &mut Driver, path: &std::path::PathBuf, op: usize) -> Result<(), String> {
        let e = |e: driver::result::DriverError| format!("{e:?}");
        match op {
            0 => d.print_compiled(path, PrintMode::Textual).map_err(e),
            1 => d.print_focused(path, PrintMode::Textual).map_err(e),
            2 => d.print_shrunk(path, PrintMode::Textual).map_err(e),
            3 => d.print_linearized(path, PrintMode::Textual).map_err(e),
            4 => d.print_x86_64(path, PrintMode::Textual).map(|_| ()).map_err(e),
            5 => d.print_aarch64(path, PrintMode::Textual).map(|_| ()).map_err(e),
            6 => d.print_rv_64(path, PrintMode::Textual).map_err(e),
            // plain accessors: fill the Driver's caches without printing
            7 => d.parsed(path).map(|_| ()).map_err(e),
            8 => d.checked(path).map(|_| ()).map_err(e),
            9 => d.compiled(path).map(|_| ()).map_err(e),
            10 => d.uniquified(path).map(|_| ()).map_err(e),
            11 => d.focused(path).map(|_| ()).map_err(e),
            12 => d.shrunk(path).map(|_| ()).map_err(e),
            _ => d.linearized(path).map(|_| ()).map_err(e),
        }
    }
    let r = (|| -> Result<Vec<String>, String> {
        let mut d = Driver::new();
        let mut rng = Rng::keyed(order, 0, "k-order");
        // earlier compilations by the same Driver: same file name, other directory
        for (i, h) in history.iter().enumerate() {
            let hd = std::path::PathBuf::from(format!("h{i}"));
            std::fs::create_dir_all(&hd).map_err(|e| e.to_string())?;
            let hp = hd.join("p.sc");
            std::fs::write(&hp, h).map_err(|e| e.to_string())?;
            let ops: Vec<usize> = if order == 0 { vec![0, 1, 2, 3] } else { (0..1 + rng.below(4)).map(|_| rng.below(14)).collect() };
            for op in ops {
                let _ = std::panic::catch_unwind(std::panic::AssertUnwindSafe(|| request(&mut d, &hp, op)));
            }
        }
        // crash residue: in some instances an earlier run of the tool "died" and left temporary
        // files of plausible names behind in the output directories
        if order != 0 && rng.pct(30) {
            for d in [Paths::compiled_dir(), Paths::focused_dir(), Paths::shrunk_dir(), Paths::linearized_dir(), Paths::x86_64_assembly_dir(), Paths::aarch64_assembly_dir(), Paths::risc_v_assembly_dir()] {
                let _ = std::fs::create_dir_all(&d);
                for n in ["p.tmp", "p.txt.tmp", "p.asm.tmp", ".p.tmp", "p.txt~", "p.asm.part"] {
                    let _ = std::fs::write(d.join(n), "left behind by a run that did not finish\n");
                }
            }
        }
        let md = std::path::PathBuf::from("m");
        std::fs::create_dir_all(&md).map_err(|e| e.to_string())?;
        let path = md.join("p.sc");
        std::fs::write(&path, src).map_err(|e| e.to_string())?;
        let mut out = vec![String::new(); 7];
        for _round in 0..=repeat {
            let mut ops: Vec<usize> = (0..7).collect();
            if order != 0 {
                rng.shuffle(&mut ops);
                for _ in 0..rng.below(4) {
                    let at = rng.below(ops.len() + 1);
                    ops.insert(at, 7 + rng.below(7));
                }
            }
            let rd = |p: std::path::PathBuf| std::fs::read_to_string(&p).map_err(|e| format!("{p:?}: {e}"));
            for op in ops {
                let x = std::panic::catch_unwind(std::panic::AssertUnwindSafe(|| request(&mut d, &path, op)));
                // the file a stage writes is read right after the request (a later request for
                // another program or stage must not be able to change what was handed out)
                let file = match op {
                    0 => Paths::compiled_dir().join("p.txt"),
                    1 => Paths::focused_dir().join("p.txt"),
                    2 => Paths::shrunk_dir().join("p.txt"),
                    3 => Paths::linearized_dir().join("p.txt"),
                    4 => Paths::x86_64_assembly_dir().join("p.asm"),
                    5 => Paths::aarch64_assembly_dir().join("p.asm"),
                    6 => Paths::risc_v_assembly_dir().join("p.asm"),
                    _ => {
                        if let Ok(Err(e)) = x {
                            return Err(e);
                        }
                        continue;
                    }
                };
                out[op] = match x {
                    Ok(Ok(())) => rd(file)?,
                    Ok(Err(e)) => return Err(e),
                    // only the code generators have documented capacity assertions
                    Err(e) if op >= 4 => format!("PANIC: {}", seam::panic_msg(&e)),
                    Err(e) => std::panic::resume_unwind(e),
                };
            }
        }
        Ok(out)
    })();
    let _ = std::env::set_current_dir(old);
    let _ = std::fs::remove_dir_all(&dir);
    r
}

pub fn run_instance(src: &str, inst: &Instance) -> Result<Vec<String>, String> {
    let r = seam::in_instance(inst.keys, || {
        if inst.via_driver {
            let hist: Vec<String> = inst.history.iter().map(|Step::Compile(s)| s.clone()).collect();
            return renderings_via_driver(src, inst.repeat, inst.order, &hist).map_err(|e| {
                // the driver reports front-end errors in its own format; normalise to the kind
                if e.contains("Parse") { "parse error".to_string() } else { "type error".to_string() }
            });
        }
        for Step::Compile(s) in &inst.history {
            let _ = renderings(s);
        }
        for _ in 0..inst.repeat {
            let _ = renderings(src);
        }
        renderings(src).map_err(|e| if e.starts_with("parse error") { "parse error".to_string() } else { "type error".to_string() })
    });
    match r {
        Ok(x) => x,
        Err(p) => Err(format!("PANIC: {p}")),
    }
}

fn first_diff(a: &str, b: &str) -> String {
    for (i, (x, y)) in a.lines().zip(b.lines()).enumerate() {
        if x != y {
            return format!("line {}: `{}` vs `{}`", i + 1, x.trim(), y.trim());
        }
    }
    format!("lengths {} vs {} lines", a.lines().count(), b.lines().count())
}

/// compare two instances; returns (stage, message) of the first difference
pub fn compare(src: &str, a: &Instance, b: &Instance) -> Option<(String, String)> {
    let ra = run_instance(src, a);
    let rb = run_instance(src, b);
    match (ra, rb) {
        (Ok(x), Ok(y)) => {
            for s in 0..STAGES.len() {
                let (cx, cy) = (canon(s, &x[s]), canon(s, &y[s]));
                if cx != cy {
                    return Some((STAGES[s].to_string(), format!("{} rendering differs between two process instances: {}", STAGES[s], first_diff(&cx, &cy))));
                }
            }
            None
        }
        (Err(x), Err(y)) => {
            if x == y { None } else { Some(("front".into(), format!("different failures: `{x}` vs `{y}`"))) }
        }
        (Ok(_), Err(y)) | (Err(y), Ok(_)) => Some(("front".into(), format!("one instance compiled, the other failed: {y}"))),
    }
}

/// A small program that declares every type name of `src` with the opposite polarity (data <->
/// codata) and uses each of them once. Compiling it earlier in the same process must not change
/// how `src` is compiled (per-process tables keyed by type name).
pub fn flip_polarity_sibling(src: &str) -> Option<String> {
    let mut decls = String::new();
    let mut uses = Vec::new();
    for line in src.lines() {
        let (codata, rest) = if let Some(r) = line.strip_prefix("data ") {
            (false, r)
        } else if let Some(r) = line.strip_prefix("codata ") {
            (true, r)
        } else {
            continue;
        };
        let head = rest.split('{').next()?.trim();
        let name: String = head.chars().take_while(|c| c.is_alphanumeric() || *c == '_').collect();
        if name.is_empty() {
            continue;
        }
        let nparams = if head.contains('[') { head.matches(',').count() + 1 } else { 0 };
        let targs = if nparams == 0 { String::new() } else { format!("[{}]", vec!["i64"; nparams].join(", ")) };
        let k = uses.len();
        if codata {
            // was codata: now data with one constructor
            decls.push_str(&format!("data {head} {{ Mk{name} }}\n"));
            uses.push(format!("(let v{k}: {name}{targs} = Mk{name}; (v{k}).case{targs} {{ Mk{name} => {k} }})"));
        } else {
            decls.push_str(&format!("codata {head} {{ peek{name}: i64 }}\n"));
            uses.push(format!("(let v{k}: {name}{targs} = new {{ peek{name} => {k} }}; (v{k}).peek{name}{targs})"));
        }
    }
    if uses.is_empty() {
        return None;
    }
    let mut body = String::from("0");
    for u in uses {
        body = format!("(({body}) + ({u}))");
    }
    Some(format!("{decls}\ndef main(): i64 {{\n  {body}\n}}\n"))
}

/// A sibling of `src`: the same program with the constructor / destructor lists of its type
/// declarations rotated (same type and xtor names at different positions). Compiling it earlier
/// in the same process must not influence the compilation of `src`.
pub fn perturb_xtor_order(src: &str) -> String {
    let mut out = String::new();
    for line in src.lines() {
        let is_decl = line.starts_with("data ") || line.starts_with("codata ");
        let (Some(a), Some(b)) = (line.find('{'), line.rfind('}')) else {
            out.push_str(line);
            out.push('\n');
            continue;
        };
        if !is_decl || a >= b {
            out.push_str(line);
            out.push('\n');
            continue;
        }
        let inner = &line[a + 1..b];
        let mut parts: Vec<String> = Vec::new();
        let mut depth = 0;
        let mut cur = String::new();
        for ch in inner.chars() {
            match ch {
                '(' | '[' => {
                    depth += 1;
                    cur.push(ch);
                }
                ')' | ']' => {
                    depth -= 1;
                    cur.push(ch);
                }
                ',' if depth == 0 => {
                    parts.push(cur.trim().to_string());
                    cur.clear();
                }
                _ => cur.push(ch),
            }
        }
        if !cur.trim().is_empty() {
            parts.push(cur.trim().to_string());
        }
        if parts.len() > 1 {
            parts.rotate_left(1);
        }
        out.push_str(&format!("{}{{ {} }}{}\n", &line[..a], parts.join(", "), &line[b + 1..]));
    }
    out
}

pub fn corpus() -> Vec<(String, String)> {
    let mut v = Vec::new();
    for sub in ["examples", "testsuite/end_to_end", "testsuite/success_check", "benchmarks"] {
        let mut stack = vec![std::path::PathBuf::from(format!("{}/{sub}", repo_dir()))];
        while let Some(d) = stack.pop() {
            let Ok(rd) = std::fs::read_dir(&d) else { continue };
            let mut entries: Vec<_> = rd.filter_map(|e| e.ok()).map(|e| e.path()).collect();
            entries.sort();
            for p in entries {
                if p.is_dir() {
                    stack.push(p);
                } else if p.extension().map(|e| e == "sc").unwrap_or(false) {
                    if let Ok(s) = std::fs::read_to_string(&p) {
                        v.push((p.to_string_lossy().into_owned(), s));
                    }
                }
            }
        }
    }
    v.sort();
    v
}

/// split a source text into top-level items
fn items(src: &str) -> Vec<String> {
    let mut out: Vec<String> = Vec::new();
    for l in src.lines() {
        let start = l.starts_with("def ") || l.starts_with("data ") || l.starts_with("codata ");
        if start || out.is_empty() {
            out.push(String::new());
        }
        let last = out.last_mut().unwrap();
        last.push_str(l);
        last.push('\n');
    }
    out
}

pub fn minimise(rp: &mut KReplay, mut attempts: usize) {
    if rp.cli.is_some() {
        return;
    }
    let same = |rp: &KReplay| compare(&rp.source, &rp.a, &rp.b);
    // histories
    loop {
        let mut progress = false;
        for which in 0..2 {
            let n = if which == 0 { rp.a.history.len() } else { rp.b.history.len() };
            for i in (0..n).rev() {
                if attempts == 0 {
                    break;
                }
                attempts -= 1;
                let mut c = rp.clone();
                if which == 0 { c.a.history.remove(i); } else { c.b.history.remove(i); }
                if let Some((st, m)) = same(&c) {
                    c.stage = st;
                    c.message = m;
                    *rp = c;
                    progress = true;
                }
            }
            let rep = if which == 0 { rp.a.repeat } else { rp.b.repeat };
            if rep > 0 && attempts > 0 {
                attempts -= 1;
                let mut c = rp.clone();
                if which == 0 { c.a.repeat = 0; } else { c.b.repeat = 0; }
                if let Some((st, m)) = same(&c) {
                    c.stage = st;
                    c.message = m;
                    *rp = c;
                    progress = true;
                }
            }
        }
        // top-level items of the program
        let its = items(&rp.source);
        for i in (0..its.len()).rev() {
            if attempts == 0 || its.len() <= 1 {
                break;
            }
            attempts -= 1;
            let mut c = rp.clone();
            c.source = its.iter().enumerate().filter(|(j, _)| *j != i).map(|(_, s)| s.as_str()).collect();
            // must still be an accepted program in both instances
            if run_instance(&c.source, &c.a).is_err() {
                continue;
            }
            if let Some((st, m)) = same(&c) {
                c.stage = st;
                c.message = m;
                *rp = c;
                progress = true;
                break;
            }
        }
        if !progress || attempts == 0 {
            break;
        }
    }
    rp.minimised = true;
}

#[derive(Serialize, Deserialize, Clone, Debug, Default)]
pub struct KSummary {
    pub histories: u64,
    pub compilations: u64,
    pub programs: u64,
    pub instances: u64,
    pub key_requests: u64,
    pub rejected_by_checker: u64,
    pub stage_comparisons: u64,
    /// canonical rendering hashes per corpus program (compared across worker processes)
    pub corpus_hashes: BTreeMap<String, Vec<u64>>,
    pub distinct: Vec<u64>,
    pub samples: Vec<serde_json::Value>,
    pub env: BTreeMap<String, String>,
    pub harness: Option<String>,
}

/// small programs that never print (state a process keeps about "has printed" or "uses the print
/// runtime" must not leak from earlier compilations into theirs), and one that does
const SILENT: [(&str, &str); 7] = [
    ("silent:zero", "def main(): i64 { 0 }\n"),
    ("silent:arith", "def main(n: i64): i64 { (n * 3) + 1 }\n"),
    ("silent:if", "def main(n: i64, m: i64): i64 { if n < m { n } else { m - n } }\n"),
    ("silent:list", "data List[A] { Nil, Cons(x: A, xs: List[A]) }\ndef len(l: List[i64]): i64 { l.case[i64] { Nil => 0, Cons(x, xs) => 1 + len(xs) } }\ndef main(n: i64): i64 { len(Cons(n, Cons(2, Nil))) }\n"),
    ("silent:closure", "codata Fun[A, B] { apply(x: A): B }\ndef main(n: i64): i64 { let f: Fun[i64, i64] = new { apply(x) => x + n }; f.apply[i64, i64](5) }\n"),
    ("silent:label", "def main(n: i64): i64 { label k { 1 + (if n == 0 { goto k(7) } else { n }) } }\n"),
    ("loud:hello", "def main(): i64 { println_i64(7); 0 }\n"),
];

fn programs_for(seed: u64, tier: &str) -> Vec<(String, String)> {
    let mut v = corpus();
    v.extend(SILENT.iter().map(|(n, s)| (n.to_string(), s.to_string())));
    let n = if tier == "thorough" { 6000 } else { 400 };
    for i in 0..n {
        let mut rng = Rng::keyed(seed, i, "k-fun");
        let src = crate::fungen::generate_for_k(&mut rng);
        v.push((format!("generated#{i}"), src));
    }
    v
}

pub fn kworker(tier: &str, seed: u64, w: u64, n: u64) -> i32 {
    let progs = programs_for(seed, tier);
    let mut sum = KSummary::default();
    for k in ["TERM", "NO_COLOR", "COLUMNS", "LANG", "RUST_BACKTRACE", "CLICOLOR_FORCE"] {
        if let Ok(v) = std::env::var(k) {
            sum.env.insert(k.to_string(), v);
        }
    }
    // before anything else: the programs that never print, as the first compilations of this OS
    // process (odd workers) or right after a program that prints (even workers); the hashes are
    // compared across the worker processes, which is the only place where state that a process
    // keeps for its whole life can be seen
    for (pi, (name, src)) in SILENT.iter().enumerate().take(SILENT.len() - 1) {
        let history = if w % 2 == 0 { vec![Step::Compile(SILENT[SILENT.len() - 1].1.to_string())] } else { vec![] };
        let inst = Instance { via_driver: false, keys: Rng::keyed(seed, w * 7919 + pi as u64, "k-first").next() | 1, history, repeat: 0, order: 0 };
        sum.instances += 1;
        sum.compilations += 1;
        if let Ok(r) = run_instance(src, &inst) {
            let hs: Vec<u64> = r.iter().enumerate().map(|(s, t)| hash_str(&canon(s, t))).collect();
            sum.corpus_hashes.insert(format!("first:{name}"), hs);
        }
    }
    let stdout = std::io::stdout();
    let rounds: u64 = if tier == "thorough" { 6 } else { 1 };
    let mut distinct: BTreeSet<u64> = BTreeSet::new();
    // seeded histories, split over the workers
    for round in 0..rounds {
        for (pi, (name, src)) in progs.iter().enumerate() {
            let idx = round * progs.len() as u64 + pi as u64;
            if idx % n != w {
                continue;
            }
            let mut rng = Rng::keyed(seed, idx, "k-history");
            let mut mk = |rng: &mut Rng| -> Instance {
                let mut history = Vec::new();
                let h = [0, 0, 1, 2, 5][rng.below(5)];
                for _ in 0..h {
                    let (_, s) = &progs[rng.below(progs.len())];
                    history.push(Step::Compile(s.clone()));
                }
                // a sibling with permuted constructor order compiled earlier in the same process
                if rng.pct(35) {
                    history.push(Step::Compile(perturb_xtor_order(src)));
                }
                // a sibling that declares the same type names with the opposite polarity
                if rng.pct(20) {
                    if let Some(f) = flip_polarity_sibling(src) {
                        history.push(Step::Compile(f));
                    }
                }
                let via_driver = rng.pct(25);
                let order = if via_driver && rng.pct(70) { rng.next() | 1 } else { 0 };
                Instance { via_driver, keys: rng.next() | 1, history, repeat: [0, 0, 1, 2][rng.below(4)], order }
            };
            let mut a = mk(&mut rng);
            let mut b = mk(&mut rng);
            if name.starts_with("silent:") {
                // one process has compiled nothing before, the other a program that prints
                a.history.clear();
                b.history = vec![Step::Compile(SILENT[SILENT.len() - 1].1.to_string())];
            }
            sum.histories += 1;
            sum.instances += 2;
            sum.compilations += (a.history.len() + b.history.len() + a.repeat + b.repeat + 2) as u64;
            sum.stage_comparisons += STAGES.len() as u64;
            distinct.insert(hash_str(&format!("{name}|{}|{}|{}|{}", a.history.len(), b.history.len(), a.keys, b.keys)));
            if sum.samples.len() < 2 && src.len() < 1200 {
                sum.samples.push(serde_json::json!({"program": name, "source": src, "instance_a": {"hash_keys": a.keys, "earlier_compilations": a.history.len(), "repeat": a.repeat}, "instance_b": {"hash_keys": b.keys, "earlier_compilations": b.history.len(), "repeat": b.repeat}}));
            }
            if let Some((stage, message)) = compare(src, &a, &b) {
                let rp = KReplay {
                    engine: "K".into(),
                    property: "C17".into(),
                    class: "Nondeterminism".into(),
                    stage,
                    message,
                    verif_seed: seed,
                    name: name.clone(),
                    source: src.clone(),
                    a,
                    b,
                    minimised: false,
                    cli: None,
                    worker: Some((tier.to_string(), w, n)),
                };
                let mut o = stdout.lock();
                let _ = writeln!(o, "{}", serde_json::to_string(&serde_json::json!({"found": rp})).unwrap());
            }
        }
    }
    // at the end every worker renders the whole corpus once more under its own keys and
    // environment, now with everything this process compiled before as history (process-global
    // state such as counters or caches); the hashes are compared across worker processes
    for (pi, (name, src)) in progs.iter().enumerate() {
        let mut rng = Rng::keyed(seed, w * 1_000_003 + pi as u64, "k-corpus");
        let inst = Instance { via_driver: false, keys: rng.next() | 1, history: vec![], repeat: 0, order: 0 };
        sum.instances += 1;
        sum.compilations += 1;
        match run_instance(src, &inst) {
            Ok(r) => {
                let hs: Vec<u64> = r.iter().enumerate().map(|(s, t)| hash_str(&canon(s, t))).collect();
                sum.corpus_hashes.insert(name.clone(), hs);
            }
            Err(e) => {
                sum.rejected_by_checker += 1;
                sum.corpus_hashes.insert(name.clone(), vec![hash_str(&e)]);
            }
        }
    }
    sum.programs = progs.len() as u64;
    sum.key_requests = seam::KEY_REQUESTS.load(std::sync::atomic::Ordering::SeqCst);
    sum.distinct = distinct.into_iter().collect();
    let mut o = stdout.lock();
    let _ = writeln!(o, "{}", serde_json::to_string(&serde_json::json!({"summary": sum})).unwrap());
    0
}

// ---------------------------------------------------------------------------------------------
// the command line tool itself: `scc --no-color <stage> file` as separate OS processes under
// seeded environment blocks; standard output, exit status and every file written must agree

const CLI_STAGES: [&str; 5] = ["compile", "uniquify", "focus", "shrink", "linearize"];

#[derive(Serialize, Deserialize, Clone, Debug)]
pub struct CliCase {
    pub stage: String,
    pub env_a: Vec<(String, String)>,
    pub env_b: Vec<(String, String)>,
    /// set: standard output on a pseudo-terminal, at these two widths (env_a for both)
    #[serde(default)]
    pub tty: Option<(u16, u16)>,
}

fn cli_env(rng: &mut Rng) -> Vec<(String, String)> {
    let mut e = vec![("TERM".to_string(), rng.pick(&["dumb", "xterm-256color", "vt100", "screen"]).to_string())];
    if rng.pct(50) {
        e.push(("NO_COLOR".into(), "1".into()));
    }
    if rng.pct(30) {
        e.push(("CLICOLOR_FORCE".into(), "1".into()));
    }
    if rng.pct(30) {
        e.push(("CLICOLOR".into(), rng.pick(&["0", "1"]).to_string()));
    }
    e.push(("COLUMNS".into(), rng.pick(&["20", "80", "132", "400"]).to_string()));
    e.push(("LANG".into(), rng.pick(&["C", "en_US.UTF-8", "de_DE.UTF-8"]).to_string()));
    e
}

/// build the tool from the tree under test (debug profile, as the repository's own tests do)
fn build_scc() -> Result<String, String> {
    let repo = crate::orch::repo_dir();
    let o = Command::new("cargo")
        .args(["build", "--offline", "-q", "-p", "scc", "--manifest-path", &format!("{repo}/Cargo.toml")])
        .stdout(Stdio::null())
        .stderr(Stdio::piped())
        .output()
        .map_err(|e| format!("cargo: {e}"))?;
    if !o.status.success() {
        return Err(format!("building scc failed: {}", String::from_utf8_lossy(&o.stderr).lines().rev().take(3).collect::<Vec<_>>().join(" | ")));
    }
    let bin = format!("{repo}/target/debug/scc");
    if !std::path::Path::new(&bin).exists() {
        return Err(format!("{bin} not found after the build"));
    }
    Ok(bin)
}

/// one run of the tool in a fresh directory; (exit status, stdout, files written)
fn cli_run(bin: &str, dir: &str, src: &str, stage: &str, env: &[(String, String)]) -> Result<(Option<i32>, Vec<u8>, BTreeMap<String, Vec<u8>>), String> {
    let _ = std::fs::remove_dir_all(dir);
    std::fs::create_dir_all(dir).map_err(|e| e.to_string())?;
    std::fs::write(format!("{dir}/p.sc"), src).map_err(|e| e.to_string())?;
    let mut c = Command::new(bin);
    c.args(["--no-color", stage, "p.sc"]).current_dir(dir).stderr(Stdio::null());
    for k in ["TERM", "NO_COLOR", "CLICOLOR_FORCE", "CLICOLOR", "COLUMNS", "LANG", "RUST_BACKTRACE"] {
        c.env_remove(k);
    }
    for (k, v) in env {
        c.env(k, v);
    }
    let o = c.output().map_err(|e| format!("{bin}: {e}"))?;
    let mut files = BTreeMap::new();
    let mut stack = vec![std::path::PathBuf::from(format!("{dir}/target_scc"))];
    while let Some(d) = stack.pop() {
        let Ok(rd) = std::fs::read_dir(&d) else { continue };
        for e in rd.flatten() {
            let p = e.path();
            if p.is_dir() {
                stack.push(p);
            } else if let Ok(b) = std::fs::read(&p) {
                files.insert(p.strip_prefix(dir).unwrap_or(&p).to_string_lossy().to_string(), b);
            }
        }
    }
    let _ = std::fs::remove_dir_all(dir);
    Ok((o.status.code(), o.stdout, files))
}

/// one run of the tool with its standard output on a pseudo-terminal of the given width
fn cli_run_tty(bin: &str, dir: &str, src: &str, stage: &str, env: &[(String, String)], cols: u16) -> Result<(Option<i32>, Vec<u8>), String> {
    use std::os::fd::FromRawFd;
    let _ = std::fs::remove_dir_all(dir);
    std::fs::create_dir_all(dir).map_err(|e| e.to_string())?;
    std::fs::write(format!("{dir}/p.sc"), src).map_err(|e| e.to_string())?;
    let (mut master, mut slave) = (0, 0);
    let ws = libc::winsize { ws_row: 24, ws_col: cols, ws_xpixel: 0, ws_ypixel: 0 };
    if unsafe { libc::openpty(&mut master, &mut slave, std::ptr::null_mut(), std::ptr::null(), &ws) } != 0 {
        return Err("openpty failed".into());
    }
    let mut c = Command::new(bin);
    c.args(["--no-color", stage, "p.sc"]).current_dir(dir).stderr(Stdio::null()).stdin(Stdio::null());
    c.stdout(unsafe { Stdio::from_raw_fd(slave) });
    for k in ["TERM", "NO_COLOR", "CLICOLOR_FORCE", "CLICOLOR", "COLUMNS", "LANG", "RUST_BACKTRACE"] {
        c.env_remove(k);
    }
    for (k, v) in env {
        c.env(k, v);
    }
    let mut child = c.spawn().map_err(|e| format!("{bin}: {e}"))?;
    drop(c); // closes the parent's copy of the slave side
    let mut out = Vec::new();
    let mut buf = [0u8; 4096];
    loop {
        let n = unsafe { libc::read(master, buf.as_mut_ptr() as *mut libc::c_void, buf.len()) };
        if n <= 0 {
            break;
        }
        out.extend_from_slice(&buf[..n as usize]);
    }
    unsafe {
        libc::close(master);
    }
    let st = child.wait().map_err(|e| e.to_string())?;
    let _ = std::fs::remove_dir_all(dir);
    Ok((st.code(), out))
}

/// the same stage on terminals of two different widths
fn cli_compare_tty(bin: &str, tag: &str, src: &str, case: &CliCase, cols: (u16, u16)) -> Result<Option<String>, String> {
    let base = format!("{}/work/kcli-{}-{tag}", verif_dir(), std::process::id());
    let a = cli_run_tty(bin, &format!("{base}-ta"), src, &case.stage, &case.env_a, cols.0)?;
    let b = cli_run_tty(bin, &format!("{base}-tb"), src, &case.stage, &case.env_a, cols.1)?;
    if a != b {
        let (x, y) = (String::from_utf8_lossy(&a.1).to_string(), String::from_utf8_lossy(&b.1).to_string());
        return Ok(Some(format!("standard output of `scc --no-color {} p.sc` on a terminal differs between {} and {} columns: {}", case.stage, cols.0, cols.1, first_diff(&x, &y))));
    }
    Ok(None)
}

/// compare two runs of one stage; Some(message) if they differ
fn cli_compare(bin: &str, tag: &str, src: &str, case: &CliCase) -> Result<Option<String>, String> {
    let base = format!("{}/work/kcli-{}-{tag}", verif_dir(), std::process::id());
    let a = cli_run(bin, &format!("{base}-a"), src, &case.stage, &case.env_a)?;
    let b = cli_run(bin, &format!("{base}-b"), src, &case.stage, &case.env_b)?;
    if a.0 != b.0 {
        return Ok(Some(format!("`scc --no-color {} p.sc` exits with {:?} under {:?} and with {:?} under {:?}", case.stage, a.0, case.env_a, b.0, case.env_b)));
    }
    if a.1 != b.1 {
        let (x, y) = (String::from_utf8_lossy(&a.1).to_string(), String::from_utf8_lossy(&b.1).to_string());
        return Ok(Some(format!("standard output of `scc --no-color {} p.sc` differs between the environments {:?} and {:?}: {}", case.stage, case.env_a, case.env_b, first_diff(&x, &y))));
    }
    if a.2 != b.2 {
        let name = a.2.keys().chain(b.2.keys()).find(|k| a.2.get(*k) != b.2.get(*k)).cloned().unwrap_or_default();
        return Ok(Some(format!("file {name} written by `scc --no-color {} p.sc` differs between the environments {:?} and {:?}", case.stage, case.env_a, case.env_b)));
    }
    Ok(None)
}

/// the command line and the seeded environment block of worker process `w`
fn worker_cmd(exe: &std::path::Path, tier: &str, seed: u64, w: u64, nw: u64, dir_tag: &str) -> Command {
    let mut rng = Rng::keyed(seed, w, "k-env");
    let mut cmd = Command::new(exe);
    cmd.args(["kworker", tier, &seed.to_string(), &w.to_string(), &nw.to_string()]);
    cmd.env_remove("NO_COLOR").env_remove("CLICOLOR_FORCE");
    cmd.env("TERM", *rng.pick(&["dumb", "xterm-256color", "vt100", "screen"]));
    if rng.pct(50) {
        cmd.env("NO_COLOR", "1");
    }
    if rng.pct(30) {
        cmd.env("CLICOLOR_FORCE", "1");
    }
    cmd.env("COLUMNS", rng.pick(&["20", "80", "132", "400"]).to_string());
    cmd.env("LANG", *rng.pick(&["C", "en_US.UTF-8", "de_DE.UTF-8"]));
    cmd.env("RUST_BACKTRACE", *rng.pick(&["0", "1"]));
    let wd = format!("{}/work/{dir_tag}{w}", verif_dir());
    let _ = std::fs::create_dir_all(&wd);
    cmd.current_dir(&wd);
    cmd
}

pub fn replay(path: &str) -> Result<(KReplay, Option<(String, String)>), String> {
    let s = std::fs::read_to_string(path).map_err(|e| format!("{path}: {e}"))?;
    let rp: KReplay = serde_json::from_str(&s).map_err(|e| format!("{path}: {e}"))?;
    if let Some(case) = &rp.cli {
        let bin = build_scc()?;
        let r = match case.tty {
            Some(cols) => cli_compare_tty(&bin, "replay", &rp.source, case, cols)?,
            None => cli_compare(&bin, "replay", &rp.source, case)?,
        }
        .map(|m| (format!("cli-{}", case.stage), m));
        return Ok((rp, r));
    }
    let r = compare(&rp.source, &rp.a, &rp.b);
    if r.is_none() {
        if let Some((tier, w, n)) = rp.worker.clone() {
            // not reproducible from the instance pair alone: run the worker process again
            let exe = std::env::current_exe().map_err(|e| e.to_string())?;
            let out = worker_cmd(&exe, &tier, rp.verif_seed, w, n, "kr").stderr(Stdio::null()).output().map_err(|e| e.to_string())?;
            let _ = std::fs::remove_dir_all(format!("{}/work/kr{w}", verif_dir()));
            for l in String::from_utf8_lossy(&out.stdout).lines() {
                let Ok(v) = serde_json::from_str::<serde_json::Value>(l) else { continue };
                if let Some(f) = v.get("found").and_then(|f| serde_json::from_value::<KReplay>(f.clone()).ok()) {
                    if f.name == rp.name && f.stage == rp.stage {
                        return Ok((rp, Some((f.stage, format!("{} (reproduced by re-running worker {w} of {n}; the instance pair alone does not show it)", f.message)))));
                    }
                }
            }
        }
    }
    Ok((rp, r))
}

pub fn check(tier: &str) -> i32 {
    let t0 = std::time::Instant::now();
    let seed: u64 = std::env::var("VERIF_SEED").ok().and_then(|s| s.parse().ok()).unwrap_or(1);
    let nw: u64 = std::env::var("VERIF_WORKERS").ok().and_then(|s| s.parse().ok()).unwrap_or_else(|| std::thread::available_parallelism().map(|n| n.get() as u64).unwrap_or(8));
    println!("VERIF_SEED={seed} property=C17 tier={tier} workers={nw}");
    let exe = std::env::current_exe().expect("exe");
    let mut handles = Vec::new();
    for w in 0..nw {
        let mut cmd = worker_cmd(&exe, tier, seed, w, nw, "k");
        let mut c = cmd.stdout(Stdio::piped()).stderr(Stdio::null()).spawn().expect("spawn");
        let out = c.stdout.take().unwrap();
        handles.push(std::thread::spawn(move || {
            let lines: Vec<String> = BufReader::new(out).lines().map_while(Result::ok).collect();
            let st = c.wait().ok().and_then(|s| s.code());
            (lines, st)
        }));
    }
    let mut total = KSummary::default();
    let mut found: Vec<KReplay> = Vec::new();
    let mut per_worker: Vec<BTreeMap<String, Vec<u64>>> = Vec::new();
    let mut distinct: BTreeSet<u64> = BTreeSet::new();
    let mut envs = Vec::new();
    for h in handles {
        let (lines, st) = h.join().unwrap();
        let mut ok = false;
        for l in lines {
            let Ok(v) = crate::orch::from_json::<serde_json::Value>(&l) else {
            // a line that cannot be read must never be dropped silently
            if l.trim().is_empty() {
                continue;
            }
            println!("HARNESS-ERROR: a worker line could not be read: {}", l.chars().take(120).collect::<String>());
            return 2;
        };
            if let Some(f) = v.get("found") {
                if let Ok(rp) = serde_json::from_value::<KReplay>(f.clone()) {
                    found.push(rp);
                }
            } else if let Some(s) = v.get("summary") {
                if let Ok(s) = serde_json::from_value::<KSummary>(s.clone()) {
                    ok = true;
                    total.histories += s.histories;
                    total.compilations += s.compilations;
                    total.instances += s.instances;
                    total.key_requests += s.key_requests;
                    total.rejected_by_checker += s.rejected_by_checker;
                    total.stage_comparisons += s.stage_comparisons;
                    total.programs = s.programs;
                    distinct.extend(s.distinct.iter().copied());
                    if total.samples.len() < 2 {
                        total.samples.extend(s.samples.into_iter().take(1));
                    }
                    envs.push(s.env);
                    per_worker.push(s.corpus_hashes);
                }
            }
        }
        if !ok || st != Some(0) {
            println!("HARNESS-ERROR: C17 worker ended abnormally (status {st:?})");
            return 2;
        }
    }
    for w in 0..nw {
        let _ = std::fs::remove_dir_all(format!("{}/work/k{w}", verif_dir()));
    }
    // cross-process agreement on the corpus
    let mut cross = 0u64;
    let mut cross_diff: Vec<String> = Vec::new();
    if let Some(first) = per_worker.first() {
        for (name, hs) in first {
            for (wi, other) in per_worker.iter().enumerate().skip(1) {
                cross += 1;
                if other.get(name) != Some(hs) {
                    let stage = other
                        .get(name)
                        .and_then(|o| o.iter().zip(hs).position(|(a, b)| a != b))
                        .map(|s| STAGES.get(s).copied().unwrap_or("front"))
                        .unwrap_or("front");
                    cross_diff.push(format!("{name}: {stage} rendering differs between worker process 0 and {wi}"));
                    break;
                }
            }
        }
    }
    let known = load_known();
    let mut known_lines: BTreeSet<String> = BTreeSet::new();
    // phase 3: the command-line tool as separate OS processes under seeded environment blocks
    let mut cli_runs = 0u64;
    match build_scc() {
        Err(e) => {
            println!("HARNESS-ERROR: {e}");
            return 2;
        }
        Ok(bin) => {
            let progs = programs_for(seed, tier);
            let n = if tier == "thorough" { 150 } else { 14 };
            for (pi, (name, src)) in progs.iter().filter(|(_, s)| s.len() < 6000).take(n).enumerate() {
                let mut rng = Rng::keyed(seed, pi as u64, "k-cli");
                let stage = CLI_STAGES[rng.below(CLI_STAGES.len())].to_string();
                let tty = if pi % 3 == 2 { Some((*rng.pick(&[40u16, 60, 80]), *rng.pick(&[120u16, 200, 250]))) } else { None };
                let case = CliCase { stage, env_a: cli_env(&mut rng), env_b: cli_env(&mut rng), tty };
                cli_runs += 2;
                let r = match case.tty {
                    Some(cols) => cli_compare_tty(&bin, &format!("{pi}"), src, &case, cols),
                    None => cli_compare(&bin, &format!("{pi}"), src, &case),
                };
                match r {
                    Err(e) => {
                        println!("HARNESS-ERROR: {e}");
                        return 2;
                    }
                    Ok(None) => {}
                    Ok(Some(message)) => {
                        let inst = Instance { via_driver: false, keys: 1, history: vec![], repeat: 0, order: 0 };
                        found.push(KReplay {
                            engine: "K".into(),
                            property: "C17".into(),
                            class: "Nondeterminism".into(),
                            stage: format!("cli-{}", case.stage),
                            message,
                            verif_seed: seed,
                            name: name.clone(),
                            source: src.clone(),
                            a: inst.clone(),
                            b: inst,
                            minimised: true,
                            cli: Some(case),
                            worker: None,
                        });
                    }
                }
            }
        }
    }
    let mut viol_lines = Vec::new();
    let mut violations = 0;
    found.sort_by(|a, b| a.source.len().cmp(&b.source.len()));
    let mut seen_stage: BTreeSet<String> = BTreeSet::new();
    let mut unexplained = 0;
    for rp in found.iter().take(12) {
        let mut rp = rp.clone();
        minimise(&mut rp, 120);
        if let Some(k) = kmatch(&known, &rp) {
            known_lines.insert(format!("KNOWN-FINDING: property=C17 {}", k));
            continue;
        }
        if !seen_stage.insert(rp.stage.clone()) || unexplained >= 3 {
            continue;
        }
        unexplained += 1;
        let dir = format!("{}/replays/C17", verif_dir());
        let _ = std::fs::create_dir_all(&dir);
        let body = serde_json::to_string_pretty(&rp).unwrap();
        let path = format!("{dir}/Nondeterminism-{}-{:016x}.json", rp.stage, hash_str(&body));
        std::fs::write(&path, body).expect("write replay");
        let st = Command::new(&exe).args(["replay", &path]).stdout(Stdio::null()).stderr(Stdio::null()).status();
        if st.ok().and_then(|s| s.code()) != Some(1) {
            println!("HARNESS-ERROR: replay of {path} did not reproduce");
            return 2;
        }
        violations += 1;
        println!("  program={} stage={} keys {:#x} vs {:#x}", rp.name, rp.stage, rp.a.keys, rp.b.keys);
        println!("  {}", rp.message);
        viol_lines.push(format!("VIOLATION property=C17 replay={path}"));
    }
    if found.is_empty() && !cross_diff.is_empty() {
        // differences that only show between genuinely separate processes
        violations += 1;
        let dir = format!("{}/replays/C17", verif_dir());
        let _ = std::fs::create_dir_all(&dir);
        let path = format!("{dir}/cross-process-{:016x}.json", hash_str(&cross_diff.join("\n")));
        std::fs::write(&path, serde_json::to_string_pretty(&serde_json::json!({"engine": "K", "property": "C17", "class": "CrossProcess", "differences": cross_diff, "verif_seed": seed})).unwrap()).expect("write");
        println!("  {}", cross_diff[0]);
        viol_lines.push(format!("VIOLATION property=C17 replay={path}"));
    }
    let wall = t0.elapsed().as_secs_f64();
    let mut samples = total.samples.clone();
    if samples.is_empty() {
        samples.push(serde_json::json!({"note": "no program below the sample size limit"}));
    }
    let ev = serde_json::json!({
        "property_id": "C17", "tier": tier, "seed": seed, "level": "exploration",
        "coverage": {
            "evaluations": total.histories.max(1),
            "distinct_nontrivial": distinct.len(),
            "rule": "one evaluation = one pair of simulated process instances (fresh thread, hash keys from the getrandom seam, seeded history of earlier compilations, optional repeated compilation) compiling the same source; all 7 printable stages compared byte for byte (assembly after renaming labels by order of first definition); distinct = distinct (program, history lengths, key pair); in addition every worker process renders the whole corpus under its own keys and environment block and the hashes are compared across processes",
            "samples": samples,
            "programs": total.programs,
            "compilations_run": total.compilations,
            "process_instances_simulated": total.instances,
            "hash_key_requests_served_by_seam": total.key_requests,
            "stage_comparisons": total.stage_comparisons,
            "cross_process_comparisons": cross,
            "cross_process_differences": cross_diff.len(),
            "command_line_tool_processes_run": cli_runs,
            "worker_processes": nw,
            "environment_blocks": envs,
            "runs_per_hour": if wall > 0.0 { (total.histories as f64 / wall * 3600.0) as u64 } else { 0 },
            "fault_kinds_injected": {"hash_key_sets": total.instances, "histories_of_earlier_compilations": total.histories * 2, "environment_blocks": nw},
            "known_findings_reported": known_lines,
            "components": {"real": ["fun (parser, checker)", "fun2core", "core_lang (focusing)", "core2axcut", "axcut (linearize)", "axcut2backend + three backends", "printer"], "stub": ["hash key source (getrandom seam)", "process = fresh OS thread plus separate worker processes"], "real_processes": "scc --no-color <stage> run as OS processes under seeded environment blocks (TERM, NO_COLOR, CLICOLOR[_FORCE], COLUMNS, LANG): stdout, exit status and written files compared"}
        },
        "assumptions": ["std's RandomState draws its per-thread keys through the interposed `getrandom` symbol (checked at run time: hash_key_requests_served_by_seam > 0)", "label canonicalisation renames exactly the tokens defined as labels in the file", "exploration: a clean batch is evidence, not proof"],
        "wall_s": wall, "violations": violations
    });
    let _ = std::fs::create_dir_all(format!("{}/evidence", verif_dir()));
    std::fs::write(format!("{}/evidence/C17.json", verif_dir()), serde_json::to_string_pretty(&ev).unwrap()).expect("evidence");
    if total.key_requests == 0 {
        println!("HARNESS-ERROR: the getrandom seam was never consulted; hash keys are not under the simulator's control");
        return 2;
    }
    for l in &known_lines {
        println!("{l}");
    }
    for l in &viol_lines {
        println!("{l}");
    }
    println!("property=C17 histories={} instances={} compilations={} cross-process comparisons={} differences found={} wall={:.1}s", total.histories, total.instances, total.compilations, cross, found.len(), wall);
    if violations > 0 { 1 } else { 0 }
}

fn kmatch(k: &KnownFile, rp: &KReplay) -> Option<String> {
    known_match(k, "C17", &rp.class, &rp.stage, &rp.message, &rp.source).map(|k| k.what.clone())
}
