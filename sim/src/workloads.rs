//! Workload generators ("clients" of the simulated machine) and their specific oracles.

use crate::ast::*;
use crate::compile::Backend;
use crate::mach::*;
use crate::orch::CheckCfg;
use crate::prng::Rng;
use crate::run::*;
use crate::wgen::{self, GenCfg, LIT_POOL, halfword_pattern};
use std::collections::BTreeMap;
use std::rc::Rc;

pub fn corpus() -> Vec<(&'static str, axcut::syntax::Prog)> {
    vec![
        ("arith_exit", axcut_examples::arith_exit()),
        ("arith_print", axcut_examples::arith_print()),
        ("closure_exit", axcut_examples::closure_exit()),
        ("closure_print", axcut_examples::closure_print()),
        ("either_exit", axcut_examples::either_exit()),
        ("either_print", axcut_examples::either_print()),
        ("list_exit", axcut_examples::list_exit()),
        ("list_print", axcut_examples::list_print()),
        ("midi_exit", axcut_examples::midi_exit()),
        ("midi_print", axcut_examples::midi_print()),
        ("mini_exit", axcut_examples::mini_exit()),
        ("mini_print", axcut_examples::mini_print()),
        ("non_linear_exit", axcut_examples::non_linear_exit()),
        ("non_linear_print", axcut_examples::non_linear_print()),
        ("quad_exit", axcut_examples::quad_exit()),
        ("quad_print", axcut_examples::quad_print()),
    ]
}

fn min_args(bs: &[Backend]) -> usize {
    bs.iter().map(|b| max_args(*b)).min().unwrap_or(5)
}

fn arg_values(rng: &mut Rng, n: usize) -> Vec<i64> {
    (0..n)
        .map(|_| match rng.below(5) {
            0 => *rng.pick(&LIT_POOL),
            1 => rng.next() as i64,
            2 => halfword_pattern(rng),
            _ => rng.range(-10, 60),
        })
        .collect()
}

pub fn make(wl: &str, rng: &mut Rng, cfg: &CheckCfg, k: u64) -> Option<Scenario> {
    match wl {
        "gen" => {
            let rv_too = cfg.backends.contains(&Backend::Rv);
            let cap = if rv_too && rng.pct(50) { 14 } else { 26 };
            let g = GenCfg::swarm(rng, cap, min_args(&cfg.backends), true, cfg.max_stmts);
            let prog = wgen::gen_program(rng, &g);
            let args = arg_values(rng, prog.defs[0].params.len());
            Some(Scenario { kind: "gen".into(), prog, args, meta: vec![], noise: 0 })
        }
        "gen-rv" => {
            let g = GenCfg::swarm(rng, 14, 5, false, cfg.max_stmts);
            let prog = wgen::gen_program(rng, &g);
            let args = arg_values(rng, prog.defs[0].params.len());
            Some(Scenario { kind: "gen-rv".into(), prog, args, meta: vec![], noise: 0 })
        }
        "corpus" => {
            let c = corpus();
            let (name, p) = c.get(k as usize)?;
            let prog = from_axcut(p);
            let n = prog.defs[0].params.len();
            Some(Scenario { kind: format!("corpus:{name}"), prog, args: vec![0; n], meta: vec![], noise: 0 })
        }
        "loop" => {
            let rv_too = cfg.backends.contains(&Backend::Rv);
            let cap = if rv_too && rng.pct(40) { 14 } else { 24 };
            let mut g = GenCfg::swarm(rng, cap, 0, false, cfg.max_stmts);
            g.n_defs = 2 + rng.below(3);
            g.fuel = -1; // fuel comes from main's argument
            g.n_args = 1;
            g.print_pct = 0;
            g.drop_pct = g.drop_pct.max(10);
            g.call_bias = 85;
            g.divrem_pct = 0;
            let prog = wgen::gen_program(rng, &g);
            let n = 1 + rng.below(64) as i64;
            Some(Scenario { kind: "loop".into(), prog, args: vec![n], meta: vec![], noise: 0 })
        }
        "loop2" => Some(make_loop2(rng, &cfg.backends)),
        "ops" => Some(make_ops(rng, &cfg.backends, false)),
        "ops-rv" => Some(make_ops(rng, &cfg.backends, true)),
        "pipe" | "pipe-rv" => make_pipe(rng, wl == "pipe-rv", cfg.max_stmts),
        "abi" => Some(make_abi(rng, &cfg.backends)),
        "subst" => Some(make_subst(rng, &cfg.backends)),
        _ => None,
    }
}

/// pick the workload for run index `i`: corpus entries first, then the others round-robin
pub fn pick(cfg: &CheckCfg, i: u64) -> (&'static str, u64) {
    let nc = if cfg.workloads.contains(&"corpus") { corpus_len() } else { 0 };
    if i < nc {
        return ("corpus", i);
    }
    let others: Vec<&'static str> = cfg.workloads.iter().copied().filter(|w| *w != "corpus").collect();
    let j = i - nc;
    (others[(j % others.len() as u64) as usize], j / others.len() as u64)
}

pub fn corpus_len() -> u64 {
    16
}

pub fn three_way(r: &mut ScenarioResult, sc: &Scenario) {
    if let Some(Some(rv)) = r.results.get(&Backend::Rv) {
        for b in [Backend::X86, Backend::A64] {
            if let Some(Some(o)) = r.results.get(&b) {
                if o != rv {
                    r.findings.push(Finding {
                        prop: "C08".into(),
                        class: Class::Disagree,
                        backend: Backend::Rv,
                        config: "benign".into(),
                        msg: format!("rv64 result {rv} disagrees with {} result {o} on a print-free program ({})", b.name(), sc.kind),
                        plan: EnvPlan::benign(),
                        args: None,
                    });
                }
            }
        }
    }
}

pub fn run(wl: &str, sc: &Scenario, rcfg: &RunCfg, rng: &mut Rng, keys: u64, stats: &mut Stats) -> ScenarioResult {
    match wl {
        "subst" => run_subst(sc, rcfg, rng, keys, stats, None),
        "loop" | "loop2" => run_loop(sc, rcfg, rng, keys, stats),
        _ => {
            let mut r = run_scenario(sc, rcfg, rng, keys, stats, None);
            three_way(&mut r, sc);
            r
        }
    }
}

pub fn run_fixed(sc: &Scenario, rcfg: &RunCfg, rng: &mut Rng, keys: u64, stats: &mut Stats, plan: &EnvPlan) -> ScenarioResult {
    if sc.kind == "subst" {
        return run_subst(sc, rcfg, rng, keys, stats, Some(plan));
    }
    if sc.kind == "loop" {
        // a loop finding is replayed at its recorded argument
        return run_scenario(sc, rcfg, rng, keys, stats, Some(plan));
    }
    run_scenario(sc, rcfg, rng, keys, stats, Some(plan))
}

// ---------------------------------------------------------------------------------------------
// small construction kit

struct Kit {
    next: usize,
    /// print-free observation (RISC-V backend cannot print)
    printless: bool,
    /// bound on the number of clause bodies the observation code may generate (continuations are
    /// duplicated per clause of a multi-constructor type)
    obs_budget: isize,
}

impl Kit {
    fn fresh(&mut self, n: &str) -> Name {
        self.next += 1;
        Name::new(n, self.next)
    }
}

fn ext(v: Name) -> Bind {
    Bind { v, chi: Chi::E, ty: Ty::I64 }
}

enum Pre {
    Subst(Vec<(Bind, Name)>),
    Let { var: Name, ty: Ty, tag: Name, args: Vec<Bind> },
    Create { var: Name, ty: Ty, env: Vec<Bind>, clauses: Vec<Clause> },
    Lit { lit: i64, var: Name },
    Print { newline: bool, var: Name },
}

fn fold(pre: Vec<Pre>, last: Stmt) -> Rc<Stmt> {
    let mut cur = Rc::new(last);
    for p in pre.into_iter().rev() {
        cur = Rc::new(match p {
            Pre::Subst(map) => Stmt::Subst { map, next: cur },
            Pre::Let { var, ty, tag, args } => Stmt::Let { var, ty, tag, args, next: cur },
            Pre::Create { var, ty, env, clauses } => Stmt::Create { var, ty, env, clauses, next: cur },
            Pre::Lit { lit, var } => Stmt::Lit { lit, var, next: cur },
            Pre::Print { newline, var } => Stmt::Print { newline, var, next: cur },
        });
    }
    cur
}

/// types used by the special workloads: Box_k(k ints) for k in 0..=8, Pair(Box, Box), Fn { ap(int) }
fn kit_types() -> Vec<TyDecl> {
    let mut ts = Vec::new();
    for k in 0..=8usize {
        ts.push(TyDecl {
            name: Name::new("Box", k + 1),
            xtors: vec![Xtor { name: Name::new("B", 10 + k), args: (0..k).map(|j| ext(Name::new("b", 100 + 10 * k + j))).collect() }],
        });
    }
    // a two-constructor type (jump table) holding an object
    ts.push(TyDecl {
        name: Name::new("Opt", 20),
        xtors: vec![
            Xtor { name: Name::new("None", 21), args: vec![] },
            Xtor { name: Name::new("Some", 22), args: vec![Bind { v: Name::new("s", 23), chi: Chi::P, ty: Ty::D(Name::new("Box", 3)) }, ext(Name::new("t", 24))] },
        ],
    });
    ts.push(TyDecl { name: Name::new("Fn", 30), xtors: vec![Xtor { name: Name::new("ap", 31), args: vec![ext(Name::new("a", 32))] }] });
    ts
}

fn box_ty(k: usize) -> Ty {
    Ty::D(Name::new("Box", k + 1))
}

/// A variable of the special workloads together with what observing it must print.
#[derive(Clone)]
enum Shape {
    Int,
    Box(usize),
    Opt(bool),
    Clo,
}

/// append statements that create a value of `shape` at the end of `ctx`
fn build(kit: &mut Kit, rng: &mut Rng, ctx: &mut Vec<Bind>, pre: &mut Vec<Pre>, shape: &Shape) -> Name {
    match shape {
        Shape::Int => {
            let v = kit.fresh("i");
            let lit = match rng.below(10) {
                0 | 1 => *rng.pick(&LIT_POOL),
                2 | 3 => halfword_pattern(rng),
                _ => rng.range(-50, 500),
            };
            pre.push(Pre::Lit { lit, var: v.clone() });
            ctx.push(ext(v.clone()));
            v
        }
        Shape::Box(k) => {
            let mut args = Vec::new();
            for _ in 0..*k {
                let v = kit.fresh("f");
                pre.push(Pre::Lit { lit: rng.range(-9, 999), var: v.clone() });
                ctx.push(ext(v.clone()));
                args.push(ext(v));
            }
            ctx.truncate(ctx.len() - k);
            let o = kit.fresh("o");
            pre.push(Pre::Let { var: o.clone(), ty: box_ty(*k), tag: Name::new("B", 10 + k), args });
            ctx.push(Bind { v: o.clone(), chi: Chi::P, ty: box_ty(*k) });
            o
        }
        Shape::Opt(some) => {
            let ty = Ty::D(Name::new("Opt", 20));
            let o = kit.fresh("p");
            if *some {
                let b = build(kit, rng, ctx, pre, &Shape::Box(2));
                let t = kit.fresh("t");
                pre.push(Pre::Lit { lit: rng.range(0, 99), var: t.clone() });
                ctx.push(ext(t.clone()));
                let args = vec![Bind { v: b, chi: Chi::P, ty: box_ty(2) }, ext(t)];
                ctx.truncate(ctx.len() - 2);
                pre.push(Pre::Let { var: o.clone(), ty: ty.clone(), tag: Name::new("Some", 22), args });
            } else {
                pre.push(Pre::Let { var: o.clone(), ty: ty.clone(), tag: Name::new("None", 21), args: vec![] });
            }
            ctx.push(Bind { v: o.clone(), chi: Chi::P, ty });
            o
        }
        Shape::Clo => {
            // closure capturing one fresh int; ap(a) prints captured and a, then exits with captured
            let c = kit.fresh("c");
            pre.push(Pre::Lit { lit: rng.range(1000, 2000), var: c.clone() });
            ctx.push(ext(c.clone()));
            let env = vec![ext(c.clone())];
            ctx.truncate(ctx.len() - 1);
            let a = kit.fresh("a");
            let body = if kit.printless {
                Rc::new(Stmt::Exit { var: c.clone() })
            } else {
                fold(vec![Pre::Print { newline: true, var: c.clone() }, Pre::Print { newline: false, var: a.clone() }], Stmt::Exit { var: c.clone() })
            };
            let k = kit.fresh("k");
            let ty = Ty::D(Name::new("Fn", 30));
            pre.push(Pre::Create { var: k.clone(), ty: ty.clone(), env, clauses: vec![Clause { xtor: Name::new("ap", 31), ctx: vec![ext(a)], body }] });
            ctx.push(Bind { v: k.clone(), chi: Chi::C, ty });
            k
        }
    }
}

/// Observe every variable of `ctx` (print ints, open objects and print their fields, finally
/// invoke one closure if present) and exit.
fn observe_all(kit: &mut Kit, ctx: Vec<Bind>, mut pre: Vec<Pre>) -> Rc<Stmt> {
    if kit.printless {
        return observe_one(kit, ctx, pre);
    }
    // print all integers first
    for b in &ctx {
        if b.chi == Chi::E {
            pre.push(Pre::Print { newline: true, var: b.v.clone() });
        }
    }
    observe_objects(kit, ctx, pre)
}

/// print-free observation: the result is one variable (chosen by the binder id parity), an
/// object is opened and one of its integer fields returned, a closure is invoked
fn observe_one(kit: &mut Kit, ctx: Vec<Bind>, mut pre: Vec<Pre>) -> Rc<Stmt> {
    if ctx.is_empty() {
        let z = kit.fresh("z");
        pre.push(Pre::Lit { lit: 0, var: z.clone() });
        return fold(pre, Stmt::Exit { var: z });
    }
    let pick = ctx[(kit.next * 7 + 3) % ctx.len()].clone();
    match pick.chi {
        Chi::E => fold(pre, Stmt::Exit { var: pick.v.clone() }),
        Chi::P => {
            let mut nctx: Vec<Bind> = ctx.iter().filter(|b| b.v != pick.v).cloned().collect();
            nctx.push(pick.clone());
            pre.push(Pre::Subst(nctx.iter().map(|b| (b.clone(), b.v.clone())).collect()));
            nctx.pop();
            let types = kit_types();
            let decl = types.iter().find(|t| Ty::D(t.name.clone()) == pick.ty).expect("kit type");
            let mut clauses = Vec::new();
            for x in &decl.xtors {
                let binders: Vec<Bind> = x.args.iter().map(|a| Bind { v: kit.fresh("g"), chi: a.chi, ty: a.ty.clone() }).collect();
                let body = match binders.iter().rev().find(|b| b.chi == Chi::E) {
                    Some(b) => Rc::new(Stmt::Exit { var: b.v.clone() }),
                    None => {
                        let z = kit.fresh("z");
                        Rc::new(Stmt::Lit { lit: 5, var: z.clone(), next: Rc::new(Stmt::Exit { var: z }) })
                    }
                };
                clauses.push(Clause { xtor: x.name.clone(), ctx: binders, body });
            }
            fold(pre, Stmt::Switch { var: pick.v.clone(), ty: pick.ty.clone(), clauses })
        }
        Chi::C => {
            let a = kit.fresh("z");
            pre.push(Pre::Lit { lit: 7, var: a.clone() });
            let args = vec![ext(a.clone())];
            let map: Vec<(Bind, Name)> = vec![(ext(a.clone()), a.clone()), (pick.clone(), pick.v.clone())];
            pre.push(Pre::Subst(map));
            fold(pre, Stmt::Invoke { var: pick.v.clone(), tag: Name::new("ap", 31), ty: pick.ty.clone(), args })
        }
    }
}

fn observe_objects(kit: &mut Kit, ctx: Vec<Bind>, mut pre: Vec<Pre>) -> Rc<Stmt> {
    if kit.obs_budget <= 0 {
        let z = kit.fresh("z");
        pre.push(Pre::Lit { lit: 0, var: z.clone() });
        return fold(pre, Stmt::Exit { var: z });
    }
    // find the last object
    if let Some(pos) = ctx.iter().rposition(|b| b.chi == Chi::P) {
        let o = ctx[pos].clone();
        let mut nctx: Vec<Bind> = ctx.iter().filter(|b| b.v != o.v).cloned().collect();
        nctx.push(o.clone());
        if pos != ctx.len() - 1 {
            pre.push(Pre::Subst(nctx.iter().map(|b| (b.clone(), b.v.clone())).collect()));
        }
        nctx.pop();
        let types = kit_types();
        let decl = types.iter().find(|t| Ty::D(t.name.clone()) == o.ty).expect("kit type");
        let mut clauses = Vec::new();
        for x in &decl.xtors {
            let binders: Vec<Bind> = x.args.iter().map(|a| Bind { v: kit.fresh("g"), chi: a.chi, ty: a.ty.clone() }).collect();
            let mut cctx = nctx.clone();
            cctx.extend(binders.iter().cloned());
            let mut cpre = Vec::new();
            for b in &binders {
                if b.chi == Chi::E {
                    cpre.push(Pre::Print { newline: false, var: b.v.clone() });
                }
            }
            kit.obs_budget -= 1;
            let body = observe_objects(kit, cctx, cpre);
            clauses.push(Clause { xtor: x.name.clone(), ctx: binders, body });
        }
        return fold(pre, Stmt::Switch { var: o.v.clone(), ty: o.ty.clone(), clauses });
    }
    // closures: invoke the last one (the others are dropped by the substitution)
    if let Some(pos) = ctx.iter().rposition(|b| b.chi == Chi::C) {
        let k = ctx[pos].clone();
        let a = kit.fresh("z");
        pre.push(Pre::Lit { lit: 7, var: a.clone() });
        let args = vec![ext(a.clone())];
        let mut map: Vec<(Bind, Name)> = vec![(ext(a.clone()), a.clone())];
        map.push((k.clone(), k.v.clone()));
        pre.push(Pre::Subst(map));
        return fold(pre, Stmt::Invoke { var: k.v.clone(), tag: Name::new("ap", 31), ty: k.ty.clone(), args });
    }
    let z = kit.fresh("z");
    pre.push(Pre::Lit { lit: 0, var: z.clone() });
    fold(pre, Stmt::Exit { var: z })
}

fn random_shape(rng: &mut Rng) -> Shape {
    match rng.below(10) {
        0..=4 => Shape::Int,
        5 => Shape::Box(rng.below(9)),
        6 => Shape::Box(1 + rng.below(3)),
        7 => Shape::Opt(rng.pct(60)),
        8 => Shape::Clo,
        _ => Shape::Box(0),
    }
}

// ---------------------------------------------------------------------------------------------
// W-abi (C13): k entry arguments, v live variables of seeded kinds at a print, then observe all

pub fn make_abi(rng: &mut Rng, backends: &[Backend]) -> Scenario {
    let mut kit = Kit { next: 2000, printless: false, obs_budget: 48 };
    let k = rng.below(min_args(backends) + 1);
    let v = rng.below(21);
    let params: Vec<Bind> = (0..k).map(|_| ext(kit.fresh("arg"))).collect();
    let mut ctx = params.clone();
    let mut pre = Vec::new();
    while ctx.len() < v {
        let sh = random_shape(rng);
        build(&mut kit, rng, &mut ctx, &mut pre, &sh);
    }
    // make sure there is something to print
    let ints: Vec<Name> = ctx.iter().filter(|b| b.chi == Chi::E).map(|b| b.v.clone()).collect();
    let target = if ints.is_empty() {
        let sh = Shape::Int;
        build(&mut kit, rng, &mut ctx, &mut pre, &sh)
    } else {
        rng.pick(&ints).clone()
    };
    for _ in 0..1 + rng.below(3) {
        pre.push(Pre::Print { newline: rng.pct(50), var: target.clone() });
    }
    let body = observe_all(&mut kit, ctx, pre);
    let prog = Prog { types: kit_types(), defs: vec![Def { name: Name::new("main", 0), params, body }], max_id: kit.next + 1 };
    let args = arg_values(rng, k);
    Scenario { kind: "abi".into(), prog, args, meta: vec![], noise: 0 }
}

// ---------------------------------------------------------------------------------------------
// W-subst (C11): old environment of n variables; ONE substitution; observe every new variable

pub fn make_subst(rng: &mut Rng, backends: &[Backend]) -> Scenario {
    // about 40 % of the scenarios stay within the RISC-V register file (and half of those are
    // print-free so that the RISC-V backend can run them); the others slide the window across the
    // x86-64 (6) and AArch64 (13) register/spill boundaries
    let rv = backends.contains(&Backend::Rv) && rng.pct(40);
    let mut kit = Kit { next: 3000, printless: rv && rng.pct(60), obs_budget: 48 };
    let cap = if rv { 13 } else { 40 };
    let offset = if rng.pct(75) { [0, 1, 2, 3, 4, 5, 6, 7, 9, 10, 11, 12, 13, 14, 15, 17][rng.below(16)] } else { 0 };
    let (n, m) = if rng.pct(70) { (rng.below(6), rng.below(6)) } else { (rng.below(9), rng.below(12)) };
    let offset = offset.min(cap - n.max(m).min(cap));
    let mut ctx: Vec<Bind> = Vec::new();
    let mut pre = Vec::new();
    // padding in front slides the window across the register/spill boundary
    for _ in 0..offset {
        build(&mut kit, rng, &mut ctx, &mut pre, &Shape::Int);
    }
    let pad: Vec<Bind> = ctx.clone();
    // old environment; sometimes two variables alias the same object (created through a substitution)
    let mut olds: Vec<Bind> = Vec::new();
    while olds.len() < n {
        let sh = random_shape(rng);
        let before = ctx.len();
        build(&mut kit, rng, &mut ctx, &mut pre, &sh);
        let nb = ctx[before].clone();
        olds.push(nb.clone());
        if nb.chi != Chi::E && olds.len() < n && rng.pct(25) {
            // alias: (ctx..., x) -> (ctx..., x, x')
            let alias = Bind { v: kit.fresh("al"), chi: nb.chi, ty: nb.ty.clone() };
            let mut map: Vec<(Bind, Name)> = ctx.iter().map(|b| (b.clone(), b.v.clone())).collect();
            map.push((alias.clone(), nb.v.clone()));
            pre.push(Pre::Subst(map));
            ctx.push(alias.clone());
            olds.push(alias);
        }
    }
    // the map: new[m] -> old[n]
    let mut targets: Vec<usize> = Vec::new();
    if n > 0 {
        match rng.below(8) {
            0 => targets = (0..n).collect(),                                   // identity
            1 => targets = (0..n).map(|i| (i + 1) % n).collect(),              // rotation
            2 => targets = (0..n).rev().collect(),                             // reversal (2-cycles)
            3 => targets = (0..m).map(|_| rng.below(n)).collect(),             // random with fan-out
            4 => targets = (0..m).map(|i| i % n).collect(),                    // fan-out / chain
            5 => targets = vec![],                                             // drop all
            6 => {
                let x = rng.below(n);
                targets = (0..m.max(2)).map(|_| x).collect();                  // one variable copied k times
            }
            _ => {
                targets = (0..n).collect();
                rng.shuffle(&mut targets);
                targets.truncate(m.min(n));
            }
        }
    }
    while pad.len() + targets.len() > cap + 1 {
        targets.pop();
    }
    let keep_pad = rng.pct(85);
    let mut map: Vec<(Bind, Name)> = Vec::new();
    let mut nctx: Vec<Bind> = Vec::new();
    if keep_pad {
        for b in &pad {
            map.push((b.clone(), b.v.clone()));
            nctx.push(b.clone());
        }
    }
    for t in &targets {
        let o = &olds[*t];
        let nb = Bind { v: kit.fresh("nw"), chi: o.chi, ty: o.ty.clone() };
        map.push((nb.clone(), o.v.clone()));
        nctx.push(nb);
    }
    let at = pre.len() as i64;
    pre.push(Pre::Subst(map));
    let body = observe_all(&mut kit, nctx, pre);
    let prog = Prog { types: kit_types(), defs: vec![Def { name: Name::new("main", 0), params: vec![], body }], max_id: kit.next + 1 };
    Scenario { kind: "subst".into(), prog, args: vec![], meta: vec![at], noise: 0 }
}

/// the C11 oracle over the two snapshots around the (last) substitution that introduces `nw` names
fn subst_oracle(sc: &Scenario, snaps: &[Snap], b: Backend, plan: &EnvPlan) -> Vec<Finding> {
    let mut out = Vec::new();
    let Some(&at) = sc.meta.first() else { return out };
    let at = at as usize;
    let mut cur: &Stmt = &sc.prog.defs[0].body;
    for _ in 0..at {
        cur = match cur {
            Stmt::Subst { next, .. } | Stmt::Let { next, .. } | Stmt::Lit { next, .. } | Stmt::Create { next, .. } | Stmt::Op { next, .. } | Stmt::Print { next, .. } => next,
            _ => return out,
        };
    }
    let Stmt::Subst { map, .. } = cur else { return out };
    // statements of the straight-line prefix correspond one-to-one to markers
    if snaps.len() < at + 2 {
        return out;
    }
    let (s0, s1) = (&snaps[at], &snaps[at + 1]);
    let mk = |msg: String| Finding { prop: "C11".into(), class: Class::Subst, backend: b, config: "benign".into(), msg, plan: plan.clone(), args: None };
    if s1.env.len() != map.len() || s1.env.iter().zip(map.iter()).any(|((id, _), (nb, _))| *id != nb.v.i) {
        out.push(mk("statement boundary after the substitution does not carry the new environment".into()));
        return out;
    }
    // simultaneous assignment of temporaries
    for (j, (nb, old)) in map.iter().enumerate() {
        let Some(i) = s0.env.iter().position(|(id, _)| *id == old.i) else {
            out.push(mk(format!("source {} not in the old environment", old.show())));
            return out;
        };
        let (of, os) = s0.temps[i];
        let (nf, ns) = s1.temps[j];
        if ns.v != os.v || ns.u != os.u && !(ns.is_def() && os.is_def()) {
            out.push(mk(format!(
                "new variable #{j} ({}) does not hold what its source #{i} ({}) held: second temporary {:#x} instead of {:#x}",
                nb.v.show(),
                old.show(),
                ns.v,
                os.v
            )));
        }
        if nb.chi != Chi::E && (nf.v != of.v || !nf.is_def()) {
            out.push(mk(format!(
                "new variable #{j} ({}) does not hold what its source #{i} ({}) held: first temporary {:#x} instead of {:#x}",
                nb.v.show(),
                old.show(),
                nf.v,
                of.v
            )));
        }
    }
    // counts and "changes nothing else"
    if let (Some(h0), Some(h1)) = (&s0.shape, &s1.shape) {
        let mut old_refs: BTreeMap<u64, i64> = BTreeMap::new();
        let mut new_refs: BTreeMap<u64, i64> = BTreeMap::new();
        for (pos, (_, chi)) in s0.env.iter().enumerate() {
            if *chi != Chi::E && s0.temps[pos].0.v != 0 {
                *old_refs.entry(s0.temps[pos].0.v).or_default() += 1;
            }
        }
        for (pos, (_, chi)) in s1.env.iter().enumerate() {
            if *chi != Chi::E && s1.temps[pos].0.v != 0 {
                *new_refs.entry(s1.temps[pos].0.v).or_default() += 1;
            }
        }
        let base = plan.heap_base;
        let mut allowed_words: Vec<usize> = Vec::new();
        for (blk, o) in &old_refs {
            let n = new_refs.get(blk).copied().unwrap_or(0);
            let before = h0.counts.get(blk).copied().unwrap_or(0) as i64;
            let widx = ((*blk - base) / 8) as usize;
            allowed_words.push(widx);
            if n >= 1 {
                let after = h1.counts.get(blk).copied().map(|x| x as i64);
                if after != Some(before + n - o) {
                    out.push(mk(format!(
                        "object at heap+{:#x}: {} reference(s) before, {} after the substitution, but the stored count went from {} to {:?} (expected {})",
                        blk - base,
                        o,
                        n,
                        before,
                        after,
                        before + n - o
                    )));
                }
            } else if before + 1 - o == 0 {
                // last reference dropped: released exactly once = on the deferred list now
                if h1.d.iter().filter(|x| **x == *blk).count() != 1 {
                    out.push(mk(format!("dropped object at heap+{:#x} was not released exactly once (not on the deferred list)", blk - base)));
                }
            } else {
                let after = h1.counts.get(blk).copied().map(|x| x as i64);
                if after != Some(before - o) {
                    out.push(mk(format!("object at heap+{:#x} lost {} reference(s) but the stored count went from {} to {:?}", blk - base, o, before, after)));
                }
            }
        }
        if s0.heap_reg.v != s1.heap_reg.v {
            out.push(mk("the substitution changed the heap register".into()));
        }
        if h0.frontier != h1.frontier {
            out.push(mk("the substitution moved the allocation frontier".into()));
        }
        let n = s0.heap_words.len().min(s1.heap_words.len());
        for w in 0..n {
            if s0.heap_words[w].v != s1.heap_words[w].v && !allowed_words.contains(&w) {
                out.push(mk(format!("the substitution changed heap word heap+{:#x}, which is not the count of a substituted object", 8 * w)));
                break;
            }
        }
    }
    out
}

pub fn run_subst(sc: &Scenario, rcfg: &RunCfg, rng: &mut Rng, keys: u64, stats: &mut Stats, fixed: Option<&EnvPlan>) -> ScenarioResult {
    let cfg2 = RunCfg { backends: rcfg.backends.clone(), check_heap: true, hostile: false, record_snaps: 64, ref_budget: rcfg.ref_budget };
    let bplan;
    let fixed = match fixed {
        Some(p) => Some(p),
        None => {
            bplan = benign_plan(&mut rng.fork("subst-plan"), 4096);
            Some(&bplan)
        }
    };
    let mut r = run_scenario(sc, &cfg2, rng, keys, stats, fixed);
    let plan = fixed.unwrap().clone();
    let mut extra = Vec::new();
    for (b, snaps) in &r.snaps {
        extra.extend(subst_oracle(sc, snaps, *b, &plan));
    }
    // a heap-invariant violation that first shows at a boundary of this straight-line scenario is
    // the substitution's count/release clause (everything else in the scenario is plain allocation)
    for f in r.findings.iter_mut() {
        if f.class == Class::Heap && f.msg.contains("stored count") || f.class == Class::Heap && f.msg.contains("leak") {
            // keep C09 attribution, add a C11 twin
            extra.push(Finding { prop: "C11".into(), class: Class::Subst, backend: f.backend, config: f.config.clone(), msg: format!("heap monitor after substitution: {}", f.msg), plan: f.plan.clone(), args: None });
        }
    }
    r.findings.extend(extra);
    r
}

// ---------------------------------------------------------------------------------------------
// W-loop (C10): the same program at n, 4n, 16n iterations

pub fn run_loop(sc: &Scenario, rcfg: &RunCfg, rng: &mut Rng, keys: u64, stats: &mut Stats) -> ScenarioResult {
    let cfg2 = RunCfg { backends: rcfg.backends.clone(), check_heap: true, hostile: false, record_snaps: 0, ref_budget: 400_000 };
    let n = sc.args[0];
    let mut first: Option<ScenarioResult> = None;
    let mut peaks: BTreeMap<Backend, Vec<(i64, usize, usize)>> = BTreeMap::new();
    for mult in [1i64, 4, 16] {
        let mut s2 = sc.clone();
        s2.args = vec![n * mult];
        let mut lstats = Stats::default();
        let r = run_scenario_peaks(&s2, &cfg2, rng, keys, &mut lstats, &mut peaks, n * mult);
        let skipped = r.reference.is_none();
        stats.merge(&lstats);
        if mult > 1 {
            stats.runs -= 1;
        }
        let mut r = r;
        for f in r.findings.iter_mut() {
            f.args = Some(s2.args.clone());
        }
        if let Some(f) = first.as_mut() {
            f.findings.extend(r.findings);
            if r.harness.is_some() {
                f.harness = r.harness;
            }
        } else {
            first = Some(r);
        }
        if skipped {
            break;
        }
    }
    let mut res = first.unwrap();
    for (b, v) in &peaks {
        if v.len() == 3 {
            let (n1, p1, f1) = v[0];
            let (n3, p3, f3) = v[2];
            if p3 <= p1 && f3 > f1 + crate::monitor::SLACK {
                res.findings.push(Finding {
                    prop: "C10".into(),
                    class: Class::Footprint,
                    backend: *b,
                    config: "benign".into(),
                    msg: format!("space depends on the number of repetitions: peak live {p1} blocks at n={n1} and {p3} at n={n3}, but the frontier grew from {f1} to {f3} blocks"),
                    plan: EnvPlan::benign(),
                    args: Some(vec![n3]),
                });
            }
        }
    }
    res
}

fn run_scenario_peaks(sc: &Scenario, cfg: &RunCfg, rng: &mut Rng, keys: u64, stats: &mut Stats, peaks: &mut BTreeMap<Backend, Vec<(i64, usize, usize)>>, n: i64) -> ScenarioResult {
    let r = run_scenario(sc, cfg, rng, keys, stats, None);
    for (b, pk) in &r.peaks {
        peaks.entry(*b).or_default().push((n, pk.0, pk.1));
    }
    r
}

// ---------------------------------------------------------------------------------------------
// W-loop2 (C10): a counted loop whose body builds and disposes structures in seeded ways

fn loop2_body(kit: &mut Kit, rng: &mut Rng, ctx: Vec<Bind>, mut pre: Vec<Pre>, episodes: usize, params: &[Bind], counter: &Name) -> Rc<Stmt> {
    if episodes == 0 {
        // i' = i - 1; rearrange to the parameter list; call loop
        let one = kit.fresh("one");
        pre.push(Pre::Lit { lit: 1, var: one.clone() });
        let ni = kit.fresh("ni");
        let mut map: Vec<(Bind, Name)> = Vec::new();
        let mut args: Vec<Bind> = Vec::new();
        let stmt_op = (counter.clone(), one.clone(), ni.clone());
        for (k, p) in params.iter().enumerate() {
            let src = if k == 0 { ni.clone() } else { ctx[k].v.clone() };
            let nb = Bind { v: kit.fresh("c"), chi: p.chi, ty: p.ty.clone() };
            map.push((nb.clone(), src));
            args.push(nb);
        }
        let call = Stmt::Call { label: Name::new("loop", 1), args };
        let sub = Stmt::Subst { map, next: Rc::new(call) };
        let op = Stmt::Op { fst: stmt_op.0, op: BinOp::Sub, snd: stmt_op.1, var: stmt_op.2, next: Rc::new(sub) };
        return fold(pre, op);
    }
    let mut ctx = ctx;
    let base_len = ctx.len();
    // build one structure at the end of the context
    let shape = match rng.below(8) {
        0 => Shape::Box(rng.below(9)),
        1 => Shape::Box(4 + rng.below(5)),
        2 | 6 => Shape::Opt(true),
        3 => Shape::Clo,
        4 => Shape::Box(1 + rng.below(3)),
        5 => Shape::Opt(rng.pct(50)),
        _ => Shape::Box(rng.below(9)),
    };
    let v = build(kit, rng, &mut ctx, &mut pre, &shape);
    let b = ctx.last().unwrap().clone();
    debug_assert_eq!(ctx.len(), base_len + 1);
    // optionally share it (two references), then dispose
    let keep: Vec<(Bind, Name)> = ctx[..base_len].iter().map(|b| (b.clone(), b.v.clone())).collect();
    let mode = rng.below(6);
    match (mode, b.chi) {
        (0, _) | (_, Chi::C) => {
            // drop: the substitution omits it (deferred free list)
            if rng.pct(30) {
                // share first, then drop both copies in one substitution
                let mut m = keep.clone();
                let d1 = Bind { v: kit.fresh("d"), chi: b.chi, ty: b.ty.clone() };
                let d2 = Bind { v: kit.fresh("d"), chi: b.chi, ty: b.ty.clone() };
                m.push((d1, v.clone()));
                m.push((d2, v.clone()));
                pre.push(Pre::Subst(m));
            }
            pre.push(Pre::Subst(keep));
            ctx.truncate(base_len);
            loop2_body(kit, rng, ctx, pre, episodes - 1, params, counter)
        }
        (1, Chi::P) => {
            // share, consume one copy (non-destructive load), drop the other
            let mut m = keep.clone();
            let d1 = Bind { v: kit.fresh("d"), chi: b.chi, ty: b.ty.clone() };
            let d2 = Bind { v: kit.fresh("d"), chi: b.chi, ty: b.ty.clone() };
            m.push((d1.clone(), v.clone()));
            m.push((d2.clone(), v.clone()));
            pre.push(Pre::Subst(m));
            let mut c2: Vec<Bind> = ctx[..base_len].to_vec();
            c2.push(d1);
            switch_consume(kit, rng, c2, pre, d2, episodes, params, counter, true)
        }
        _ => {
            // consume while unique (destructive load: blocks go to the linear free list)
            let c2: Vec<Bind> = ctx[..base_len].to_vec();
            switch_consume(kit, rng, c2, pre, b, episodes, params, counter, false)
        }
    }
}

#[allow(clippy::too_many_arguments)]
fn switch_consume(kit: &mut Kit, rng: &mut Rng, rest: Vec<Bind>, pre: Vec<Pre>, obj: Bind, episodes: usize, params: &[Bind], counter: &Name, drop_extra: bool) -> Rc<Stmt> {
    let types = kit_types();
    let decl = types.iter().find(|t| Ty::D(t.name.clone()) == obj.ty).expect("kit type").clone();
    let base_len = params.len();
    let mut clauses = Vec::new();
    for x in &decl.xtors {
        let binders: Vec<Bind> = x.args.iter().map(|a| Bind { v: kit.fresh("g"), chi: a.chi, ty: a.ty.clone() }).collect();
        // inside the clause: drop the loaded fields (and the extra shared copy), keep the loop variables
        let keep: Vec<(Bind, Name)> = rest[..base_len].iter().map(|b| (b.clone(), b.v.clone())).collect();
        let _ = drop_extra;
        let cpre = vec![Pre::Subst(keep)];
        let cctx: Vec<Bind> = rest[..base_len].to_vec();
        let body = loop2_body(kit, rng, cctx, cpre, episodes - 1, params, counter);
        clauses.push(Clause { xtor: x.name.clone(), ctx: binders, body });
    }
    fold(pre, Stmt::Switch { var: obj.v.clone(), ty: obj.ty.clone(), clauses })
}

pub fn make_loop2(rng: &mut Rng, backends: &[Backend]) -> Scenario {
    let mut kit = Kit { next: 5000, printless: false, obs_budget: 48 };
    // about a third of the scenarios fit the RISC-V register file; the others slide the structures
    // across the x86-64 and AArch64 register/spill boundaries (RISC-V then reports capacity)
    let rv = backends.contains(&Backend::Rv) && rng.pct(35);
    // p padding variables to the left slide the structures across the register/spill boundary
    let p = if rv { rng.below(4) } else { [0, 1, 3, 5, 6, 7, 9, 12, 13, 15][rng.below(10)] };
    let arg = ext(kit.fresh("n"));
    let mut pre = Vec::new();
    let mut ctx = vec![arg.clone()];
    for _ in 0..p {
        build(&mut kit, rng, &mut ctx, &mut pre, &Shape::Int);
    }
    let params: Vec<Bind> = ctx.iter().map(|b| Bind { v: kit.fresh("q"), chi: b.chi, ty: b.ty.clone() }).collect();
    let main_body = fold(pre, Stmt::Call { label: Name::new("loop", 1), args: ctx.clone() });
    let counter = params[0].v.clone();
    let episodes = 1 + rng.below(if rv { 2 } else { 3 });
    let go = loop2_body(&mut kit, rng, params.clone(), Vec::new(), episodes, &params, &counter);
    let done = Rc::new(Stmt::Exit { var: counter.clone() });
    let loop_body = Rc::new(Stmt::If { sort: IfSort::Le, fst: counter.clone(), snd: None, thenc: done, elsec: go });
    let prog = Prog {
        types: kit_types(),
        defs: vec![Def { name: Name::new("main", 0), params: vec![arg], body: main_body }, Def { name: Name::new("loop", 1), params, body: loop_body }],
        max_id: kit.next + 1,
    };
    let n = 2 + rng.below(40) as i64;
    Scenario { kind: "loop".into(), prog, args: vec![n], meta: vec![], noise: 0 }
}

// ---------------------------------------------------------------------------------------------
// W-pipe: linear AxCut obtained by running generated Fun programs through the real front and
// middle end (shapes the hand-written generator does not produce: lifted statements, continuation
// closures, the substitutions `linearize` really inserts)

pub fn make_pipe(rng: &mut Rng, print_free: bool, size: usize) -> Option<Scenario> {
    let mut cfg = crate::fungen::FunCfg::swarm(rng, size.min(80));
    if print_free {
        cfg.print_pct = 0;
        cfg.many_live = false;
    }
    cfg.shadow_pct = 0;
    let fp = crate::fungen::generate(rng, &cfg);
    if print_free && fp.unique.contains("print") {
        // effectful definitions may still print; such programs are useless for the RISC-V backend
    }
    let src = fp.unique.clone();
    let keys = rng.next() | 1;
    let json = crate::seam::in_instance(keys, move || -> Option<String> {
        let parsed = fun::parser::parse_module(&src).ok()?;
        let checked = parsed.check().ok()?;
        let compiled = fun2core::program::compile_prog(checked);
        let focused = compiled.focus();
        let mut lin = core2axcut::program::shrink_prog(focused);
        lin.linearize();
        Some(serde_json::to_string(&from_axcut(&lin)).ok()?)
    })
    .ok()??;
    let prog: Prog = serde_json::from_str(&json).ok()?;
    Some(Scenario { kind: "pipe".into(), prog, args: fp.args, meta: vec![], noise: 0 })
}

// ---------------------------------------------------------------------------------------------
// W-ops (C06/C07/C08): all five operators and all six comparisons (zero and two-operand form)
// with operands and targets in every register/spill placement

/// A straight-line program with about as many live variables as the spilling back ends can hold
/// at all (the documented capacity assertion fires somewhere in 120..150): at the last admissible
/// size the code must still be right, one beyond it the compiler must refuse.
fn make_capacity_edge(rng: &mut Rng) -> Scenario {
    let mut kit = Kit { next: 7000, printless: false, obs_budget: 0 };
    let n = std::env::var("VERIF_EDGE_N").ok().and_then(|s| s.parse().ok()).unwrap_or(120 + rng.below(31));
    let mut vars: Vec<Name> = Vec::new();
    let mut lits: Vec<i64> = Vec::new();
    for _ in 0..n {
        vars.push(kit.fresh("i"));
        lits.push(rng.range(-300, 900));
    }
    let last = vars[n - 1].clone();
    let mut body: Rc<Stmt> = Rc::new(Stmt::Exit { var: last.clone() });
    for v in [vars[n - 1].clone(), vars[0].clone(), vars[n - 2].clone(), vars[n / 2].clone(), last] {
        body = Rc::new(Stmt::Print { newline: true, var: v, next: body });
    }
    for (v, l) in vars.into_iter().zip(lits).rev() {
        body = Rc::new(Stmt::Lit { lit: l, var: v, next: body });
    }
    let prog = Prog { types: kit_types(), defs: vec![Def { name: Name::new("main", 0), params: vec![], body }], max_id: kit.next + 1 };
    Scenario { kind: "ops".into(), prog, args: vec![], meta: vec![], noise: 0 }
}

pub fn make_ops(rng: &mut Rng, backends: &[Backend], print_free: bool) -> Scenario {
    let mut kit = Kit { next: 7000, printless: false, obs_budget: 0 };
    let rv = backends.contains(&Backend::Rv);
    if !rv && !print_free && rng.pct(2) {
        return make_capacity_edge(rng);
    }
    // RISC-V has no spill slots: up to exactly 14 variables, the last of which lives in X30/X31
    let cap = if rv { 15 } else { 30 };
    let k = rng.below(min_args(backends).min(3) + 1);
    let params: Vec<Bind> = (0..k).map(|_| ext(kit.fresh("arg"))).collect();
    let mut ctx = params.clone();
    let mut pre: Vec<Stmt0> = Vec::new();
    // operands: small and boundary values, never zero so that they can serve as divisors
    let p = [1, 2, 4, 5, 6, 7, 11, 12, 13, 14, 15, 16, 18, 22][rng.below(14)].min(cap - 4);
    while ctx.len() < p {
        let v = kit.fresh("i");
        let mut lit = match rng.below(6) {
            0 => *rng.pick(&LIT_POOL),
            1 => halfword_pattern(rng),
            _ => rng.range(-60, 300),
        };
        if lit == 0 {
            lit = 3;
        }
        pre.push(Stmt0::Lit(lit, v.clone()));
        ctx.push(ext(v));
    }
    let nops = 1 + rng.below(6);
    let mut results: Vec<Name> = Vec::new();
    for _ in 0..nops {
        if ctx.len() + 2 > cap || ctx.is_empty() {
            break;
        }
        let pick = |rng: &mut Rng, ctx: &Vec<Bind>| -> Name {
            // bias towards the first positions (rax/rdx, X4/X5) and the last ones (spills)
            let n = ctx.len();
            let i = match rng.below(4) {
                0 => rng.below(n.min(2)),
                1 => n - 1 - rng.below(n.min(3)),
                _ => rng.below(n),
            };
            ctx[i].v.clone()
        };
        let fst = pick(rng, &ctx);
        let snd = pick(rng, &ctx);
        let op = *rng.pick(&[BinOp::Sum, BinOp::Sub, BinOp::Prod, BinOp::Div, BinOp::Rem, BinOp::Rem, BinOp::Div]);
        let r = kit.fresh("r");
        pre.push(Stmt0::Op(fst, op, snd, r.clone()));
        ctx.push(ext(r.clone()));
        results.push(r);
    }
    // comparisons: print 1 or 2 depending on the branch, then continue in both branches
    let ncmp = rng.below(3);
    let mut body: Rc<Stmt> = {
        let mut fin: Vec<Pre> = Vec::new();
        if !print_free {
            for r in &results {
                fin.push(Pre::Print { newline: true, var: r.clone() });
            }
        }
        match results.last() {
            Some(r) => fold(fin, Stmt::Exit { var: r.clone() }),
            None => {
                let z = kit.fresh("z");
                fin.push(Pre::Lit { lit: 0, var: z.clone() });
                fold(fin, Stmt::Exit { var: z })
            }
        }
    };
    for _ in 0..ncmp {
        if ctx.is_empty() {
            break;
        }
        let n = ctx.len();
        let a = ctx[rng.below(n)].v.clone();
        let b = if rng.pct(60) { Some(ctx[n - 1 - rng.below(n.min(4))].v.clone()) } else { None };
        let sort = *rng.pick(&[IfSort::Eq, IfSort::Ne, IfSort::Lt, IfSort::Le, IfSort::Gt, IfSort::Ge]);
        let t = if print_free {
            // observable through the result instead of a print
            Rc::new(Stmt::Exit { var: a.clone() })
        } else {
            Rc::new(Stmt::Print { newline: false, var: a.clone(), next: body.clone() })
        };
        body = Rc::new(Stmt::If { sort, fst: a, snd: b, thenc: t, elsec: body });
    }
    for s0 in pre.into_iter().rev() {
        body = Rc::new(match s0 {
            Stmt0::Lit(lit, var) => Stmt::Lit { lit, var, next: body },
            Stmt0::Op(fst, op, snd, var) => Stmt::Op { fst, op, snd, var, next: body },
        });
    }
    let prog = Prog { types: kit_types(), defs: vec![Def { name: Name::new("main", 0), params, body }], max_id: kit.next + 1 };
    let args = (0..k).map(|_| { let v = rng.range(-40, 90); if v == 0 { 9 } else { v } }).collect();
    Scenario { kind: "ops".into(), prog, args, meta: vec![], noise: 0 }
}

enum Stmt0 {
    Lit(i64, Name),
    Op(Name, BinOp, Name, Name),
}
