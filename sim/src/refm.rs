//! AxCut abstract machine (reference model) and the linear type checker used as precondition.
//! Shares no code with the backends.

use crate::ast::*;
use std::rc::Rc;

#[derive(Clone, Debug)]
pub enum Val {
    Int(i64),
    Obj(Rc<ObjV>),
    Clo(Rc<CloV>),
}

#[derive(Debug)]
pub struct ObjV {
    pub xtor: Name,
    pub fields: Vec<Val>,
}

#[derive(Debug)]
pub struct CloV {
    pub env_binds: Vec<Bind>,
    pub env: Vec<Val>,
    pub clauses: Vec<Clause>,
}

#[derive(Clone, Debug, PartialEq, Eq, serde::Serialize, serde::Deserialize)]
pub struct PrintEv {
    pub newline: bool,
    pub val: i64,
}

#[derive(Clone, Debug, PartialEq, Eq, serde::Serialize, serde::Deserialize)]
pub enum RefEnd {
    Exit(i64),
    /// source semantics undefined (division by zero, overflowing division)
    Undefined(String),
    Budget,
    /// program is not linearly well-typed / machine stuck: harness-side precondition failure
    Stuck(String),
}

#[derive(Clone, Debug)]
pub struct RefOutcome {
    pub prints: Vec<PrintEv>,
    pub end: RefEnd,
    pub steps: u64,
    pub max_env: usize,
}

pub fn blocks_for_fields(n: usize) -> usize {
    if n == 0 {
        0
    } else if n <= 3 {
        1
    } else {
        1 + (n - 3).div_ceil(2)
    }
}

fn lookup<'a>(env: &'a [(usize, Val)], n: &Name) -> Result<&'a Val, String> {
    env.iter().rev().find(|(i, _)| *i == n.i).map(|(_, v)| v).ok_or_else(|| format!("unbound {}", n.show()))
}

fn int_of(env: &[(usize, Val)], n: &Name) -> Result<i64, String> {
    match lookup(env, n)? {
        Val::Int(i) => Ok(*i),
        _ => Err(format!("{} is not an integer", n.show())),
    }
}

pub fn run(p: &Prog, args: &[i64], budget: u64) -> RefOutcome {
    let mut prints = Vec::new();
    let mut steps = 0u64;
    let mut max_env = 0usize;
    let end = (|| -> Result<RefEnd, String> {
        let main = p.defs.first().ok_or("no definitions")?;
        if main.params.len() != args.len() {
            return Err("argument count".into());
        }
        let mut env: Vec<(usize, Val)> =
            main.params.iter().zip(args).map(|(b, a)| (b.v.i, Val::Int(*a))).collect();
        let mut cur: Rc<Stmt> = main.body.clone();
        loop {
            steps += 1;
            if steps > budget {
                return Ok(RefEnd::Budget);
            }
            max_env = max_env.max(env.len());
            let s = cur.clone();
            match &*s {
                Stmt::Subst { map, next } => {
                    let mut ne = Vec::with_capacity(map.len());
                    for (b, o) in map {
                        ne.push((b.v.i, lookup(&env, o)?.clone()));
                    }
                    env = ne;
                    cur = next.clone();
                }
                Stmt::Call { label, .. } => {
                    let d = p.defs.iter().find(|d| d.name == *label).ok_or("unknown label")?;
                    if d.params.len() != env.len() {
                        return Err(format!("call {}: environment length", label.show()));
                    }
                    for (b, e) in d.params.iter().zip(env.iter_mut()) {
                        e.0 = b.v.i;
                    }
                    cur = d.body.clone();
                }
                Stmt::Let { var, tag, args, next, .. } => {
                    let n = args.len();
                    if env.len() < n {
                        return Err("let: environment too short".into());
                    }
                    let rest = env.split_off(env.len() - n);
                    for (b, (i, _)) in args.iter().zip(&rest) {
                        if b.v.i != *i {
                            return Err(format!("let: argument {} not in place", b.v.show()));
                        }
                    }
                    let fields = rest.into_iter().map(|(_, v)| v).collect();
                    env.push((var.i, Val::Obj(Rc::new(ObjV { xtor: tag.clone(), fields }))));
                    cur = next.clone();
                }
                Stmt::Switch { var, clauses, .. } => {
                    let (i, v) = env.pop().ok_or("switch: empty environment")?;
                    if i != var.i {
                        return Err("switch: scrutinee not last".into());
                    }
                    let Val::Obj(o) = v else { return Err("switch: not an object".into()) };
                    let c = clauses.iter().find(|c| c.xtor == o.xtor).ok_or("switch: no clause")?;
                    if c.ctx.len() != o.fields.len() {
                        return Err("switch: field count".into());
                    }
                    for (b, f) in c.ctx.iter().zip(&o.fields) {
                        env.push((b.v.i, f.clone()));
                    }
                    cur = c.body.clone();
                }
                Stmt::Create { var, env: cenv, clauses, next, .. } => {
                    let n = cenv.len();
                    if env.len() < n {
                        return Err("create: environment too short".into());
                    }
                    let rest = env.split_off(env.len() - n);
                    for (b, (i, _)) in cenv.iter().zip(&rest) {
                        if b.v.i != *i {
                            return Err(format!("create: captured {} not in place", b.v.show()));
                        }
                    }
                    let vals = rest.into_iter().map(|(_, v)| v).collect();
                    env.push((
                        var.i,
                        Val::Clo(Rc::new(CloV { env_binds: cenv.clone(), env: vals, clauses: clauses.clone() })),
                    ));
                    cur = next.clone();
                }
                Stmt::Invoke { var, tag, args, .. } => {
                    let (i, v) = env.pop().ok_or("invoke: empty environment")?;
                    if i != var.i {
                        return Err("invoke: closure not last".into());
                    }
                    // `linearize` leaves the argument list of invoke/call empty (the environment is
                    // the argument list), so only the environment is authoritative here
                    let _ = args;
                    let Val::Clo(c) = v else { return Err("invoke: not a closure".into()) };
                    let cl = c.clauses.iter().find(|cl| cl.xtor == *tag).ok_or("invoke: no clause")?;
                    if cl.ctx.len() != env.len() {
                        return Err("invoke: environment length".into());
                    }
                    for (b, e) in cl.ctx.iter().zip(env.iter_mut()) {
                        e.0 = b.v.i;
                    }
                    for (b, v) in c.env_binds.iter().zip(&c.env) {
                        env.push((b.v.i, v.clone()));
                    }
                    cur = cl.body.clone();
                }
                Stmt::Lit { lit, var, next } => {
                    env.push((var.i, Val::Int(*lit)));
                    cur = next.clone();
                }
                Stmt::Op { fst, op, snd, var, next } => {
                    let a = int_of(&env, fst)?;
                    let b = int_of(&env, snd)?;
                    let r = match op {
                        BinOp::Sum => a.wrapping_add(b),
                        BinOp::Sub => a.wrapping_sub(b),
                        BinOp::Prod => a.wrapping_mul(b),
                        BinOp::Div | BinOp::Rem => {
                            if b == 0 {
                                return Ok(RefEnd::Undefined("division by zero".into()));
                            }
                            if a == i64::MIN && b == -1 {
                                return Ok(RefEnd::Undefined("overflowing division".into()));
                            }
                            if *op == BinOp::Div { a / b } else { a % b }
                        }
                    };
                    env.push((var.i, Val::Int(r)));
                    cur = next.clone();
                }
                Stmt::Print { newline, var, next } => {
                    let v = int_of(&env, var)?;
                    prints.push(PrintEv { newline: *newline, val: v });
                    cur = next.clone();
                }
                Stmt::If { sort, fst, snd, thenc, elsec } => {
                    let a = int_of(&env, fst)?;
                    let b = match snd {
                        Some(s) => int_of(&env, s)?,
                        None => 0,
                    };
                    let t = match sort {
                        IfSort::Eq => a == b,
                        IfSort::Ne => a != b,
                        IfSort::Lt => a < b,
                        IfSort::Le => a <= b,
                        IfSort::Gt => a > b,
                        IfSort::Ge => a >= b,
                    };
                    cur = if t { thenc.clone() } else { elsec.clone() };
                }
                Stmt::Exit { var } => {
                    return Ok(RefEnd::Exit(int_of(&env, var)?));
                }
            }
        }
    })();
    let end = match end {
        Ok(e) => e,
        Err(m) => RefEnd::Stuck(m),
    };
    RefOutcome { prints, end, steps, max_env }
}

// ---------------------------------------------------------------------------------------------
// Linear type checker (DESIGN.md Appendix C)

fn same_shape(a: &Bind, b: &Bind) -> bool {
    a.chi == b.chi && a.ty == b.ty
}

fn distinct(ctx: &[Bind]) -> bool {
    for (i, a) in ctx.iter().enumerate() {
        for b in &ctx[i + 1..] {
            if a.v.i == b.v.i {
                return false;
            }
        }
    }
    true
}

fn find<'a>(ctx: &'a [Bind], n: &Name) -> Option<&'a Bind> {
    ctx.iter().find(|b| b.v.i == n.i)
}

fn need_ext(ctx: &[Bind], n: &Name, what: &str) -> Result<(), String> {
    match find(ctx, n) {
        Some(b) if b.chi == Chi::E && b.ty == Ty::I64 => Ok(()),
        Some(_) => Err(format!("{what}: {} is not ext i64", n.show())),
        None => Err(format!("{what}: {} not in context", n.show())),
    }
}

/// returns the maximal context length seen
pub fn check_prog(p: &Prog) -> Result<usize, String> {
    let mut maxlen = 0;
    for t in &p.types {
        for x in &t.xtors {
            for b in &x.args {
                if let Ty::D(_) = &b.ty {
                    // a field may mention a type that is never built or matched on and therefore
                    // has no declaration in pipeline output; it stays opaque
                    if b.chi == Chi::E {
                        return Err("ext binding of declared type".into());
                    }
                } else if b.chi != Chi::E {
                    return Err("i64 binding must be ext".into());
                }
            }
        }
    }
    for d in &p.defs {
        if !distinct(&d.params) {
            return Err(format!("def {}: duplicate parameters", d.name.show()));
        }
        check_stmt(p, &d.params, &d.body, &mut maxlen).map_err(|e| format!("def {}: {e}", d.name.show()))?;
    }
    Ok(maxlen)
}

fn check_clauses(
    p: &Prog,
    decl: &TyDecl,
    clauses: &[Clause],
    mk: &dyn Fn(&Clause) -> Vec<Bind>,
    maxlen: &mut usize,
) -> Result<(), String> {
    if decl.xtors.len() != clauses.len() {
        return Err("clause count".into());
    }
    for (x, c) in decl.xtors.iter().zip(clauses) {
        if x.name != c.xtor {
            return Err("clauses not in declaration order".into());
        }
        if x.args.len() != c.ctx.len() || !x.args.iter().zip(&c.ctx).all(|(a, b)| same_shape(a, b)) {
            return Err(format!("clause {}: binders do not match signature", c.xtor.show()));
        }
        let ctx = mk(c);
        if !distinct(&ctx) {
            return Err(format!("clause {}: duplicate binders", c.xtor.show()));
        }
        check_stmt(p, &ctx, &c.body, maxlen)?;
    }
    Ok(())
}

pub fn check_stmt(p: &Prog, ctx: &[Bind], s: &Stmt, maxlen: &mut usize) -> Result<(), String> {
    *maxlen = (*maxlen).max(ctx.len());
    match s {
        Stmt::Subst { map, next } => {
            let mut nctx = Vec::with_capacity(map.len());
            for (b, o) in map {
                let ob = find(ctx, o).ok_or_else(|| format!("substitute: {} not in context", o.show()))?;
                if !same_shape(ob, b) {
                    return Err(format!("substitute: {} changes kind/type", b.v.show()));
                }
                nctx.push(b.clone());
            }
            if !distinct(&nctx) {
                return Err("substitute: duplicate targets".into());
            }
            check_stmt(p, &nctx, next, maxlen)
        }
        Stmt::Call { label, .. } => {
            let d = p.defs.iter().find(|d| d.name == *label).ok_or("call: unknown label")?;
            // the backends only see positions and chiralities at a call; a type annotation that
            // differs (seen on lifted definitions in pipeline output) is not their concern
            if d.params.len() != ctx.len() || !d.params.iter().zip(ctx).all(|(a, b)| a.chi == b.chi) {
                return Err(format!("call {}: context does not match parameters", label.show()));
            }
            Ok(())
        }
        Stmt::Let { var, ty, tag, args, next } => {
            let decl = p.ty_decl(ty).ok_or("let: unknown type")?;
            let x = decl.xtors.iter().find(|x| x.name == *tag).ok_or("let: unknown xtor")?;
            let n = args.len();
            if x.args.len() != n || ctx.len() < n {
                return Err("let: argument count".into());
            }
            let (rest, last) = ctx.split_at(ctx.len() - n);
            for ((a, b), sig) in args.iter().zip(last).zip(&x.args) {
                if a.v.i != b.v.i || !same_shape(b, sig) || !same_shape(a, sig) {
                    return Err(format!("let: argument {} not in place or ill-typed", a.v.show()));
                }
            }
            let mut nctx = rest.to_vec();
            nctx.push(Bind { v: var.clone(), chi: Chi::P, ty: ty.clone() });
            if !distinct(&nctx) {
                return Err("let: duplicate binder".into());
            }
            check_stmt(p, &nctx, next, maxlen)
        }
        Stmt::Switch { var, ty, clauses } => {
            let decl = p.ty_decl(ty).ok_or("switch: unknown type")?;
            let Some((last, rest)) = ctx.split_last() else { return Err("switch: empty context".into()) };
            if last.v.i != var.i || last.chi != Chi::P || last.ty != *ty {
                return Err("switch: scrutinee not last or ill-typed".into());
            }
            if clauses.is_empty() {
                return Err("switch: no clauses".into());
            }
            check_clauses(
                p,
                decl,
                clauses,
                &|c| {
                    let mut v = rest.to_vec();
                    v.extend(c.ctx.iter().cloned());
                    v
                },
                maxlen,
            )
        }
        Stmt::Create { var, ty, env, clauses, next } => {
            let decl = p.ty_decl(ty).ok_or("create: unknown type")?;
            let n = env.len();
            if ctx.len() < n {
                return Err("create: context too short".into());
            }
            let (rest, last) = ctx.split_at(ctx.len() - n);
            for (a, b) in env.iter().zip(last) {
                if a.v.i != b.v.i || !same_shape(a, b) {
                    return Err("create: captured environment not in place".into());
                }
            }
            if clauses.is_empty() {
                return Err("create: no clauses".into());
            }
            check_clauses(
                p,
                decl,
                clauses,
                &|c| {
                    let mut v = c.ctx.clone();
                    v.extend(env.iter().cloned());
                    v
                },
                maxlen,
            )?;
            let mut nctx = rest.to_vec();
            nctx.push(Bind { v: var.clone(), chi: Chi::C, ty: ty.clone() });
            if !distinct(&nctx) {
                return Err("create: duplicate binder".into());
            }
            check_stmt(p, &nctx, next, maxlen)
        }
        Stmt::Invoke { var, tag, ty, args } => {
            let decl = p.ty_decl(ty).ok_or("invoke: unknown type")?;
            let x = decl.xtors.iter().find(|x| x.name == *tag).ok_or("invoke: unknown xtor")?;
            let Some((last, rest)) = ctx.split_last() else { return Err("invoke: empty context".into()) };
            if last.v.i != var.i || last.chi != Chi::C || last.ty != *ty {
                return Err("invoke: closure not last or ill-typed".into());
            }
            if rest.len() != x.args.len() || (!args.is_empty() && args.len() != x.args.len()) {
                return Err("invoke: argument count".into());
            }
            for (b, sig) in rest.iter().zip(&x.args) {
                if !same_shape(b, sig) {
                    return Err("invoke: argument ill-typed".into());
                }
            }
            // the argument list is empty in `linearize` output; if present it must name the environment
            for (a, b) in args.iter().zip(rest) {
                if a.v.i != b.v.i {
                    return Err("invoke: argument not in place".into());
                }
            }
            Ok(())
        }
        Stmt::Lit { var, next, .. } => {
            let mut nctx = ctx.to_vec();
            nctx.push(Bind { v: var.clone(), chi: Chi::E, ty: Ty::I64 });
            if !distinct(&nctx) {
                return Err("lit: duplicate binder".into());
            }
            check_stmt(p, &nctx, next, maxlen)
        }
        Stmt::Op { fst, snd, var, next, .. } => {
            need_ext(ctx, fst, "op")?;
            need_ext(ctx, snd, "op")?;
            let mut nctx = ctx.to_vec();
            nctx.push(Bind { v: var.clone(), chi: Chi::E, ty: Ty::I64 });
            if !distinct(&nctx) {
                return Err("op: duplicate binder".into());
            }
            check_stmt(p, &nctx, next, maxlen)
        }
        Stmt::Print { var, next, .. } => {
            need_ext(ctx, var, "print")?;
            check_stmt(p, ctx, next, maxlen)
        }
        Stmt::If { fst, snd, thenc, elsec, .. } => {
            need_ext(ctx, fst, "if")?;
            if let Some(s) = snd {
                need_ext(ctx, s, "if")?;
            }
            check_stmt(p, ctx, thenc, maxlen)?;
            check_stmt(p, ctx, elsec, maxlen)
        }
        Stmt::Exit { var } => need_ext(ctx, var, "exit"),
    }
}
