//! Runs the real code generators of /repo on a program and returns the emitted text.

use crate::ast::Prog;
use crate::seam;
use axcut2backend::coder::compile;
use printer::Print;

#[derive(Clone, Copy, Debug, PartialEq, Eq, Hash, PartialOrd, Ord, serde::Serialize, serde::Deserialize)]
pub enum Backend {
    X86,
    A64,
    Rv,
}

impl Backend {
    pub fn name(&self) -> &'static str {
        match self {
            Backend::X86 => "x86_64",
            Backend::A64 => "aarch64",
            Backend::Rv => "rv64",
        }
    }
}

#[derive(Clone, Debug)]
pub enum CompileErr {
    /// documented capacity assertion of the backend
    Capacity(String),
    /// any other panic: internal failure of the pipeline (NOTE, not a verdict; C12/C18 not claimed)
    Panic(String),
}

struct Shared<'a>(&'a Prog);
// SAFETY: the spawning thread blocks in join while the instance thread runs, so the Rc counts
// inside the program are never touched concurrently.
unsafe impl Send for Shared<'_> {}

pub fn emit(p: &Prog, b: Backend, keys: u64) -> Result<String, CompileErr> {
    emit_noisy(p, b, keys, 0)
}

/// `noise` != 0: occurrences of a variable carry different display names (ids unchanged)
pub fn emit_noisy(p: &Prog, b: Backend, keys: u64, noise: u64) -> Result<String, CompileErr> {
    let sh = Shared(p);
    let r = seam::in_instance(keys, move || {
        let sh = sh;
        let prog = crate::ast::to_axcut_noisy(sh.0, noise);
        match b {
            Backend::X86 => {
                let code = compile::<axcut2x86_64::Backend, _, _, _>(prog);
                axcut2x86_64::into_routine::into_x86_64_routine(code).print_to_string(None)
            }
            Backend::A64 => {
                let code = compile::<axcut2aarch64::Backend, _, _, _>(prog);
                axcut2aarch64::into_routine::into_aarch64_routine(code).print_to_string(None)
            }
            Backend::Rv => {
                let code = compile::<axcut2rv64::Backend, _, _, _>(prog);
                axcut2rv64::into_routine::into_rv64_routine(code)
            }
        }
    });
    r.map_err(|m| {
        if m.contains("Out of temporaries") || m.contains("Out of registers") || m.contains("not implemented in RISC-V backend")
            || m.contains("too many arguments for main")
        {
            CompileErr::Capacity(m)
        } else {
            CompileErr::Panic(m)
        }
    })
}
