mod a64;
mod ast;
mod compile;
mod mach;
mod minimize;
mod monitor;
mod orch;
mod prng;
mod refm;
mod run;
mod rv;
mod seam;
mod wgen;
mod workloads;
mod x86;

fn main() {
    let h = std::thread::Builder::new().stack_size(1 << 30).spawn(real_main).unwrap();
    let code = h.join().unwrap_or(2);
    std::process::exit(code);
}

fn real_main() -> i32 {
    seam::silence_panics();
    let args: Vec<String> = std::env::args().collect();
    match args.get(1).map(|s| s.as_str()) {
        Some("check") if args.len() >= 4 => orch::check(&args[2], &args[3]),
        Some("worker") if args.len() >= 7 => {
            let p = |i: usize| args[i].parse::<u64>().unwrap_or(0);
            orch::worker(&args[2], &args[3], p(4), p(5), p(6))
        }
        Some("replay") if args.len() >= 3 => match orch::replay_file(&args[2]) {
            Err(e) => {
                eprintln!("replay: {e}");
                2
            }
            Ok((rp, fs)) => {
                if let Some(f) = fs.first() {
                    println!("VIOLATION property={} replay={}", rp.property, args[2]);
                    println!("  class={:?} backend={} config={}", f.class, f.backend.name(), f.config);
                    println!("  {}", f.msg);
                    1
                } else {
                    println!("replay of {} does not violate {} on the current tree", args[2], rp.property);
                    0
                }
            }
        },
        Some("show") if args.len() >= 3 => {
            use printer::Print;
            let s = std::fs::read_to_string(&args[2]).expect("read");
            let rp: orch::Replay = serde_json::from_str(&s).expect("parse");
            println!("property {} class {:?} backend {} config {} run {} minimised {}", rp.property, rp.class, rp.backend.name(), rp.config, rp.run, rp.minimised);
            println!("message: {}", rp.message);
            println!("plan: {:?}", rp.plan);
            println!("args: {:?} kind {} meta {:?}", rp.scenario.args, rp.scenario.kind, rp.scenario.meta);
            println!("{}", ast::to_axcut(&rp.scenario.prog).print_to_string(None));
            if args.get(3).map(|s| s == "asm").unwrap_or(false) {
                match compile::emit(&rp.scenario.prog, rp.backend, 7) {
                    Ok(t) => for (i, l) in t.lines().enumerate() { println!("{:5} {}", i + 1, l); },
                    Err(e) => println!("{e:?}"),
                }
            }
            0
        }
        Some("emit") => {
            let seed: u64 = args.get(2).and_then(|s| s.parse().ok()).unwrap_or(1);
            let b = match args.get(3).map(|s| s.as_str()) { Some("a64") => compile::Backend::A64, Some("rv") => compile::Backend::Rv, _ => compile::Backend::X86 };
            for run in seed..seed + 200 {
                let mut rng = prng::Rng::keyed(1, run, "workload");
                let cfg = wgen::GenCfg::swarm(&mut rng, if b == compile::Backend::Rv { 14 } else { 24 }, 5, b != compile::Backend::Rv, 60);
                let p = wgen::gen_program(&mut rng, &cfg);
                if p.stmt_count() < 25 { continue; }
                match compile::emit(&p, b, 5) { Ok(t) => { println!("{t}"); break; } Err(e) => { eprintln!("{e:?}"); } }
            }
            0
        }
        _ => {
            eprintln!("usage: sim check <ID> <quick|thorough> | sim replay <file> | sim emit <n> <x86|a64|rv>");
            2
        }
    }
}
