mod a64;
mod ast;
mod compile;
mod enginek;
mod enginex;
mod fungen;
mod isatest;
mod funref;
mod genref;
mod funtemplates;
mod mach;
mod minimize;
mod monitor;
mod orch;
mod prng;
mod refm;
mod run;
mod rv;
mod seam;
mod wgen;
mod workloads;
mod x86;

fn main() {
    let h = std::thread::Builder::new().stack_size(1 << 30).spawn(real_main).unwrap();
    let code = h.join().unwrap_or(2);
    std::process::exit(code);
}

fn replay_engine(path: &str) -> String {
    std::fs::read_to_string(path)
        .ok()
        .and_then(|s| orch::from_json::<EngineOnly>(&s).ok())
        .map(|v| v.engine)
        .unwrap_or_else(|| "M".into())
}

/// (only the engine tag of a replay file; everything else is skipped without building a value)
#[derive(serde::Deserialize)]
struct EngineOnly {
    engine: String,
}

fn real_main() -> i32 {
    seam::silence_panics();
    let args: Vec<String> = std::env::args().collect();
    match args.get(1).map(|s| s.as_str()) {
        Some("check") if args.len() >= 4 && args[2] == "C17" => enginek::check(&args[3]),
        Some("check") if args.len() >= 4 && (args[2] == "C01" || args[2] == "C20") => enginex::check(&args[2], &args[3]),
        Some("xworker") if args.len() >= 7 => {
            let p = |i: usize| args[i].parse::<u64>().unwrap_or(0);
            enginex::xworker(&args[2], &args[3], p(4), p(5), p(6))
        }
        Some("kworker") if args.len() >= 6 => {
            let p = |i: usize| args[i].parse::<u64>().unwrap_or(0);
            enginek::kworker(&args[2], p(3), p(4), p(5))
        }
        Some("isatest") => isatest::run_all(),
        Some("selftest") => enginex::selftest(args.get(2).and_then(|s| s.parse().ok()).unwrap_or(200)),
        Some("pipestat") => {
            let n: u64 = args.get(2).and_then(|s| s.parse().ok()).unwrap_or(200);
            let mut errs = std::collections::BTreeMap::<String, u64>::new();
            for i in 0..n {
                let mut rng = prng::Rng::keyed(1, i, "pipe");
                let size: usize = std::env::var("PIPE_SIZE").ok().and_then(|s| s.parse().ok()).unwrap_or(60);
                if let Some(sc) = workloads::make_pipe(&mut rng, i % 2 == 1, size) {
                    match refm::check_prog(&sc.prog) {
                        Ok(_) => *errs.entry("ok".into()).or_default() += 1,
                        Err(e) => {
                            let k: String = e.chars().filter(|c| !c.is_ascii_digit()).take(70).collect();
                            if errs.get(&k).is_none() && args.get(3).is_some() {
                                use printer::Print;
                                println!("=== {e}\n{}", ast::to_axcut(&sc.prog).print_to_string(None));
                            }
                            *errs.entry(k).or_default() += 1;
                        }
                    }
                } else {
                    *errs.entry("none".into()).or_default() += 1;
                }
            }
            println!("{errs:#?}");
            0
        }
        Some("templates") => {
            for (name, src, _) in funtemplates::TEMPLATES {
                match fun::parser::parse_module(src).map_err(|e| format!("parse {e:?}")).and_then(|m| m.check().map_err(|e| format!("{e:?}"))) {
                    Ok(_) => println!("{name}: accepted"),
                    Err(e) => println!("{name}: REJECTED {e}"),
                }
            }
            0
        }
        Some("funstat") => {
            // acceptance statistics of the Fun generator against the real checker
            let n: u64 = args.get(2).and_then(|s| s.parse().ok()).unwrap_or(500);
            let mut errs = std::collections::BTreeMap::<String, (u64, String)>::new();
            let mut ok = 0;
            for i in 0..n {
                let mut rng = prng::Rng::keyed(1, i, "fungen");
                let cfg = fungen::FunCfg::swarm(&mut rng, 60);
                let p = fungen::generate(&mut rng, &cfg);
                match fun::parser::parse_module(&p.unique).map_err(|e| format!("parse {e:?}")).and_then(|m| m.check().map_err(|e| format!("{e:?}"))) {
                    Ok(_) => ok += 1,
                    Err(e) => {
                        let k: String = e.chars().filter(|c| !c.is_ascii_digit()).take(60).collect();
                        let ent = errs.entry(k).or_insert((0, p.unique.clone()));
                        ent.0 += 1;
                    }
                }
            }
            println!("accepted {ok} of {n}");
            for (k, (c, src)) in errs {
                println!("{c} x {k}");
                if args.get(3).is_some() { println!("{src}"); }
            }
            0
        }
        Some("fungen") => {
            let seed: u64 = args.get(2).and_then(|s| s.parse().ok()).unwrap_or(1);
            let mut rng = prng::Rng::keyed(seed, 0, "fungen");
            let cfg = fungen::FunCfg::swarm(&mut rng, 60);
            let p = fungen::generate(&mut rng, &cfg);
            println!("// cfg {cfg:?}\n// args {:?} shadowing {}\n{}", p.args, p.has_shadowing, if args.get(3).is_some() { &p.unique } else { &p.shadowed });
            0
        }
        Some("mmin") if args.len() >= 3 => orch::mmin(&args[2]),
        Some("xfinal") if args.len() >= 5 => enginex::xfinal(&args[2], &args[3], args[4].parse().unwrap_or(0)),
        Some("kflip") => {
            // diagnostic: the polarity-flipped sibling of a source file and whether the front end accepts it
            let src = std::fs::read_to_string(args.get(2).map(|s| s.as_str()).unwrap_or("")).unwrap_or_default();
            match enginek::flip_polarity_sibling(&src) {
                Some(f) => {
                    println!("{f}");
                    match fun::parser::parse_module(&f).map_err(|e| format!("parse {e:?}")).and_then(|m| m.check().map_err(|e| format!("{e:?}"))) {
                        Ok(_) => println!("// accepted"),
                        Err(e) => println!("// REJECTED {e}"),
                    }
                }
                None => println!("// no declarations"),
            }
            0
        }
        Some("check") if args.len() >= 4 => orch::check(&args[2], &args[3]),
        Some("worker") if args.len() >= 7 => {
            let p = |i: usize| args[i].parse::<u64>().unwrap_or(0);
            orch::worker(&args[2], &args[3], p(4), p(5), p(6))
        }
        Some("replay") if args.len() >= 3 && replay_engine(&args[2]) == "K" => match enginek::replay(&args[2]) {
            Err(e) => {
                eprintln!("replay: {e}");
                2
            }
            Ok((rp, Some((stage, msg)))) => {
                println!("VIOLATION property={} replay={}", rp.property, args[2]);
                println!("  stage={stage} program={}", rp.name);
                println!("  {msg}");
                1
            }
            Ok((rp, None)) => {
                println!("replay of {} does not violate {} on the current tree", args[2], rp.property);
                0
            }
        },
        Some("replay") if args.len() >= 3 && replay_engine(&args[2]) == "X" => {
            let s = std::fs::read_to_string(&args[2]).unwrap_or_default();
            let Ok(rp) = serde_json::from_str::<enginex::XReplay>(&s) else {
                eprintln!("replay: cannot parse {}", args[2]);
                return 2;
            };
            if rp.class == "Crash" && std::env::var("VERIF_REPLAY_INNER").is_err() {
                // the replay is expected to take the process down: run it in a child of its own
                let st = std::process::Command::new(std::env::current_exe().unwrap())
                    .args(["replay", &args[2]])
                    .env("VERIF_REPLAY_INNER", "1")
                    .stdout(std::process::Stdio::null())
                    .stderr(std::process::Stdio::null())
                    .status();
                return match st.ok().map(|s| s.code()) {
                    Some(None) => {
                        println!("VIOLATION property={} replay={}", rp.property, args[2]);
                        println!("  class=Crash");
                        println!("  {}", rp.message);
                        1
                    }
                    Some(Some(1)) => {
                        println!("VIOLATION property={} replay={}", rp.property, args[2]);
                        println!("  class=Crash (the run now ends with another violation instead of a signal)");
                        1
                    }
                    Some(Some(0)) => {
                        println!("replay of {} does not violate {} on the current tree", args[2], rp.property);
                        0
                    }
                    _ => 2,
                };
            }
            let rt = match enginex::CRuntime::build("replay") {
                Ok(r) => r,
                Err(e) => {
                    eprintln!("replay: {e}");
                    return 2;
                }
            };
            let mut res = enginex::replay_x(&rt, &rp);
            if rp.class == "NameClash" {
                // fails as recorded, passes with fresh names
                if let (Ok(Some(_)), Some(tw)) = (&res, &rp.unique_twin) {
                    let mut t = rp.clone();
                    t.source = tw.clone();
                    if let Ok(Some(_)) = enginex::replay_x(&rt, &t) {
                        res = Ok(Some(("Other".into(), "fails with unique names as well".into())));
                    }
                }
            }
            if rp.class == "Capture" {
                // the capture class: the shadowed program fails and its renamed-apart twin passes
                if let (Ok(Some(_)), Some(tw)) = (&res, &rp.unique_twin) {
                    let mut t = rp.clone();
                    t.source = tw.clone();
                    if let Ok(Some(_)) = enginex::replay_x(&rt, &t) {
                        res = Ok(Some(("Other".into(), "fails with unique names as well".into())));
                    }
                }
            }
            match res {
                Err(e) => {
                    eprintln!("replay: {e}");
                    2
                }
                Ok(Some((class, msg))) => {
                    println!("VIOLATION property={} replay={}", rp.property, args[2]);
                    println!("  class={class}");
                    println!("  {msg}");
                    1
                }
                Ok(None) => {
                    println!("replay of {} does not violate {} on the current tree", args[2], rp.property);
                    0
                }
            }
        }
        Some("replay") if args.len() >= 3 => match orch::replay_file(&args[2]) {
            Err(e) => {
                eprintln!("replay: {e}");
                2
            }
            Ok((rp, fs)) => {
                if let Some(f) = fs.first() {
                    println!("VIOLATION property={} replay={}", rp.property, args[2]);
                    println!("  class={:?} backend={} config={}", f.class, f.backend.name(), f.config);
                    println!("  {}", f.msg);
                    1
                } else {
                    println!("replay of {} does not violate {} on the current tree", args[2], rp.property);
                    0
                }
            }
        },
        Some("show") if args.len() >= 3 => {
            use printer::Print;
            let s = std::fs::read_to_string(&args[2]).expect("read");
            let rp: orch::Replay = orch::from_json(&s).expect("parse");
            println!("property {} class {:?} backend {} config {} run {} minimised {}", rp.property, rp.class, rp.backend.name(), rp.config, rp.run, rp.minimised);
            println!("message: {}", rp.message);
            println!("plan: {:?}", rp.plan);
            println!("args: {:?} kind {} meta {:?}", rp.scenario.args, rp.scenario.kind, rp.scenario.meta);
            println!("{}", ast::to_axcut(&rp.scenario.prog).print_to_string(None));
            if args.get(3).map(|s| s == "asm").unwrap_or(false) {
                match compile::emit(&rp.scenario.prog, rp.backend, 7) {
                    Ok(t) => for (i, l) in t.lines().enumerate() { println!("{:5} {}", i + 1, l); },
                    Err(e) => println!("{e:?}"),
                }
            }
            0
        }
        Some("emit") => {
            let seed: u64 = args.get(2).and_then(|s| s.parse().ok()).unwrap_or(1);
            let b = match args.get(3).map(|s| s.as_str()) { Some("a64") => compile::Backend::A64, Some("rv") => compile::Backend::Rv, _ => compile::Backend::X86 };
            for run in seed..seed + 200 {
                let mut rng = prng::Rng::keyed(1, run, "workload");
                let cfg = wgen::GenCfg::swarm(&mut rng, if b == compile::Backend::Rv { 14 } else { 24 }, 5, b != compile::Backend::Rv, 60);
                let p = wgen::gen_program(&mut rng, &cfg);
                if p.stmt_count() < 25 { continue; }
                match compile::emit(&p, b, 5) { Ok(t) => { println!("{t}"); break; } Err(e) => { eprintln!("{e:?}"); } }
            }
            0
        }
        _ => {
            eprintln!("usage: sim check <ID> <quick|thorough> | sim replay <file> | sim emit <n> <x86|a64|rv>");
            2
        }
    }
}
