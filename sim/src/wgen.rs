//! W-gen: type-directed generator of linear AxCut programs, correct by construction.
//! Keeps the exact ordered context while emitting statements and inserts explicit substitutions
//! that deliberately keep, drop, duplicate and reorder variables.

use crate::ast::*;
use crate::prng::Rng;
use std::rc::Rc;

#[derive(Clone, Debug, serde::Serialize, serde::Deserialize)]
pub struct GenCfg {
    pub n_data: usize,
    pub n_codata: usize,
    pub max_xtors: usize,
    pub max_fields: usize,
    pub target_live: usize,
    pub max_live: usize,
    pub share_pct: u32,
    pub drop_pct: u32,
    pub closure_pct: u32,
    pub print_pct: u32,
    pub max_stmts: usize,
    pub n_defs: usize,
    pub n_args: usize,
    pub fuel: i64,
    pub pad: usize,
    pub big_lit_pct: u32,
    pub identity_subst_pct: u32,
    pub divrem_pct: u32,
    #[serde(default)]
    pub call_bias: u32,
}

pub const LIT_POOL: [i64; 30] = [
    0,
    1,
    -1,
    2,
    -2,
    7,
    10,
    255,
    32767,
    32768,
    -32768,
    65535,
    65536,
    -65536,
    2147483647,
    2147483648,
    -2147483648,
    -2147483649,
    4294967295,
    4294967296,
    5000000000,
    140737488355328,
    0x0000_ffff_0000_ffff,
    -0x0001_0000_0001,
    0x7fff_0000_0000_0000,
    i64::MAX,
    i64::MIN,
    i64::MIN + 1,
    0x1234_5678_9abc_def0,
    -0x1234_5678_9abc_def0,
];

/// literals built from halfwords 0x0000 / 0xFFFF / arbitrary: every MOVZ/MOVN/MOVK synthesis shape
pub fn halfword_pattern(rng: &mut Rng) -> i64 {
    let mut v: u64 = 0;
    for i in 0..4 {
        let h: u64 = match rng.below(7) {
            0 | 1 => 0,
            2 | 3 => 0xffff,
            4 => 1,
            5 => 0x8000,
            _ => rng.next() & 0xffff,
        };
        v |= h << (16 * i);
    }
    v as i64
}

impl GenCfg {
    /// swarm configuration drawn from the seed
    pub fn swarm(rng: &mut Rng, max_live_cap: usize, max_args: usize, allow_print: bool, max_stmts: usize) -> GenCfg {
        let target_live = match rng.below(6) {
            0 => rng.below(4),
            1 => 4 + rng.below(5),
            2 => 10 + rng.below(6),
            3 => rng.below(25),
            4 => 11 + rng.below(4),
            _ => 5 + rng.below(3),
        }
        .min(max_live_cap.saturating_sub(2));
        GenCfg {
            n_data: 1 + rng.below(3),
            n_codata: rng.below(3),
            max_xtors: 1 + rng.below(6),
            max_fields: [0, 1, 2, 3, 4, 5, 6, 7, 8, 3, 3, 4][rng.below(12)],
            target_live,
            max_live: max_live_cap,
            share_pct: [0, 10, 30, 60][rng.below(4)],
            drop_pct: [0, 10, 30, 60][rng.below(4)],
            closure_pct: [0, 10, 30][rng.below(3)],
            print_pct: if allow_print { [0, 5, 15, 40][rng.below(4)] } else { 0 },
            max_stmts: 10 + rng.below(max_stmts.max(11) - 10),
            n_defs: 1 + rng.below(5),
            n_args: rng.below(max_args + 1),
            fuel: [0, 1, 2, 3, 5, 8, 20, 64][rng.below(8)],
            pad: if rng.pct(30) { rng.below(16) } else { 0 },
            big_lit_pct: [0, 20, 50, 90][rng.below(4)],
            identity_subst_pct: [0, 20, 60][rng.below(3)],
            divrem_pct: [0, 10, 30][rng.below(3)],
            call_bias: [0, 0, 30, 70][rng.below(4)],
        }
    }
}

enum Pre {
    Subst(Vec<(Bind, Name)>),
    Let { var: Name, ty: Ty, tag: Name, args: Vec<Bind> },
    Create { var: Name, ty: Ty, env: Vec<Bind>, clauses: Vec<Clause> },
    Lit { lit: i64, var: Name },
    Op { fst: Name, op: BinOp, snd: Name, var: Name },
    Print { newline: bool, var: Name },
}

fn fold(pre: Vec<Pre>, last: Stmt) -> Rc<Stmt> {
    let mut cur = Rc::new(last);
    for p in pre.into_iter().rev() {
        cur = Rc::new(match p {
            Pre::Subst(map) => Stmt::Subst { map, next: cur },
            Pre::Let { var, ty, tag, args } => Stmt::Let { var, ty, tag, args, next: cur },
            Pre::Create { var, ty, env, clauses } => Stmt::Create { var, ty, env, clauses, next: cur },
            Pre::Lit { lit, var } => Stmt::Lit { lit, var, next: cur },
            Pre::Op { fst, op, snd, var } => Stmt::Op { fst, op, snd, var, next: cur },
            Pre::Print { newline, var } => Stmt::Print { newline, var, next: cur },
        });
    }
    cur
}

pub struct Gen<'a> {
    pub rng: &'a mut Rng,
    pub cfg: GenCfg,
    pub types: Vec<TyDecl>,
    pub is_codata: Vec<bool>,
    pub sigs: Vec<Vec<Bind>>,
    pub def_names: Vec<Name>,
    pub next_id: usize,
    pub budget: isize,
}

type Ctx = Vec<Bind>;

fn ext(v: Name) -> Bind {
    Bind { v, chi: Chi::E, ty: Ty::I64 }
}

impl<'a> Gen<'a> {
    pub fn new(rng: &'a mut Rng, cfg: GenCfg) -> Gen<'a> {
        let mut g = Gen {
            rng,
            cfg,
            types: Vec::new(),
            is_codata: Vec::new(),
            sigs: Vec::new(),
            def_names: Vec::new(),
            next_id: 1000,
            budget: 0,
        };
        g.make_types();
        g
    }

    pub fn fresh(&mut self, n: &str) -> Name {
        self.next_id += 1;
        Name::new(n, self.next_id)
    }

    fn make_types(&mut self) {
        let n = self.cfg.n_data + self.cfg.n_codata;
        let names: Vec<Name> = (0..n).map(|i| Name::new(if i < self.cfg.n_data { "T" } else { "U" }, i + 1)).collect();
        for i in 0..n {
            let codata = i >= self.cfg.n_data;
            let nx = 1 + self.rng.below(self.cfg.max_xtors);
            let mut xtors = Vec::new();
            for j in 0..nx {
                let mut args = Vec::new();
                // xtor 0 of every data type has only integer fields, so values of every type can be built
                let mut nf = if j == 0 && !codata { self.rng.below(3).min(self.cfg.max_fields) } else { self.rng.below(self.cfg.max_fields + 1) };
                // now and then a destructor with so many parameters that the invoked closure itself
                // sits in a spill slot (position >= 13 on AArch64, >= 6 on x86-64)
                if codata && self.cfg.max_live >= 18 && self.rng.pct(5) {
                    nf = 12 + self.rng.below(4);
                }
                for _ in 0..nf {
                    let k = self.rng.below(10);
                    let b = if k < 5 || (j == 0 && !codata) {
                        Bind { v: self.fresh("a"), chi: Chi::E, ty: Ty::I64 }
                    } else {
                        let t = self.rng.below(n);
                        Bind {
                            v: self.fresh("a"),
                            chi: if t < self.cfg.n_data { Chi::P } else { Chi::C },
                            ty: Ty::D(names[t].clone()),
                        }
                    };
                    args.push(b);
                }
                xtors.push(Xtor { name: Name::new(if codata { "m" } else { "K" }, 100 * (i + 1) + j), args });
            }
            self.types.push(TyDecl { name: names[i].clone(), xtors });
            self.is_codata.push(codata);
        }
        // in a fifth of the programs a later type reuses the xtor identifiers of an earlier type of
        // the same kind at rotated positions (an xtor is identified by its type and its name)
        if n >= 2 && self.rng.pct(20) {
            for i in 1..n {
                let Some(e) = (0..i).find(|e| self.is_codata[*e] == self.is_codata[i] && self.types[*e].xtors.len() >= 2) else { continue };
                let donor: Vec<Name> = self.types[e].xtors.iter().map(|x| x.name.clone()).collect();
                let m = self.types[i].xtors.len().min(donor.len());
                for j in 0..m {
                    self.types[i].xtors[j].name = donor[(j + 1) % donor.len()].clone();
                }
            }
        }
    }

    fn random_shape(&mut self) -> (Chi, Ty) {
        let n = self.types.len();
        let k = self.rng.below(10);
        if k < 5 || n == 0 {
            (Chi::E, Ty::I64)
        } else {
            let t = self.rng.below(n);
            (if self.is_codata[t] { Chi::C } else { Chi::P }, Ty::D(self.types[t].name.clone()))
        }
    }

    fn lit_value(&mut self) -> i64 {
        if self.rng.pct(self.cfg.big_lit_pct) {
            match self.rng.below(10) {
                0..=3 => *self.rng.pick(&LIT_POOL),
                4..=7 => halfword_pattern(self.rng),
                _ => self.rng.next() as i64,
            }
        } else {
            self.rng.range(-20, 100)
        }
    }

    /// Build a substitution from `ctx` to `front ++ tail` (both given as variable ids of `ctx`).
    /// The first occurrence of a variable may keep its name, later occurrences get fresh names.
    fn arrange(&mut self, ctx: &Ctx, front: &[usize], tail: &[usize], pre: &mut Vec<Pre>, force: bool) -> (Ctx, Vec<Name>) {
        let mut used: Vec<usize> = Vec::new();
        let mut map = Vec::new();
        let mut nctx = Vec::new();
        let mut tail_names = Vec::new();
        let reuse_tail = self.rng.pct(70);
        for (k, id) in front.iter().chain(tail.iter()).enumerate() {
            let b = ctx.iter().find(|b| b.v.i == *id).expect("arrange: id in ctx");
            // first occurrences in the front always keep their name (callers track them by id)
            let reuse = k < front.len() || reuse_tail;
            let nv = if reuse && !used.contains(id) { b.v.clone() } else { self.fresh(&b.v.n) };
            used.push(*id);
            let nb = Bind { v: nv.clone(), chi: b.chi, ty: b.ty.clone() };
            map.push((nb.clone(), b.v.clone()));
            nctx.push(nb);
            if k >= front.len() {
                tail_names.push(nv);
            }
        }
        let identity = nctx.len() == ctx.len() && nctx.iter().zip(ctx.iter()).all(|(a, b)| a.v == b.v);
        if !identity || force || self.rng.pct(self.cfg.identity_subst_pct) {
            pre.push(Pre::Subst(map));
            self.budget -= 1;
            (nctx, tail_names)
        } else {
            (ctx.clone(), tail_names)
        }
    }

    /// choose which of the variables not needed in the tail stay (and in which order)
    fn choose_front(&mut self, ctx: &Ctx, tail: &[usize], protect: &[usize]) -> Vec<usize> {
        let mut front = Vec::new();
        let over = ctx.len() > self.cfg.target_live;
        for b in ctx {
            let in_tail = tail.contains(&b.v.i);
            if in_tail {
                // duplicate (share) a consumed value so that it stays available
                if self.rng.pct(self.cfg.share_pct) {
                    front.push(b.v.i);
                }
                continue;
            }
            if protect.contains(&b.v.i) {
                front.push(b.v.i);
                continue;
            }
            let drop = if over { self.cfg.drop_pct + 25 } else { self.cfg.drop_pct / 3 };
            if !self.rng.pct(drop) {
                front.push(b.v.i);
            }
        }
        // hard cap on the number of live variables
        while front.len() + tail.len() + 2 > self.cfg.max_live && !front.is_empty() {
            let k = self.rng.below(front.len());
            if protect.contains(&front[k]) && front.iter().any(|x| !protect.contains(x)) {
                continue;
            }
            front.remove(k);
        }
        match self.rng.below(10) {
            0 => self.rng.shuffle(&mut front),
            1 if front.len() > 1 => front.rotate_left(1),
            2 if front.len() > 1 => {
                let a = self.rng.below(front.len());
                let b = self.rng.below(front.len());
                front.swap(a, b);
            }
            _ => {}
        }
        // occasionally duplicate a kept variable (fan-out)
        if !front.is_empty() && self.rng.pct(self.cfg.share_pct / 2) && front.len() + tail.len() + 3 <= self.cfg.max_live {
            let k = *self.rng.pick(&front);
            let at = self.rng.below(front.len() + 1);
            front.insert(at, k);
        }
        front
    }

    /// make sure a value of the given shape is in `ctx`, return its id
    fn ensure(&mut self, ctx: &mut Ctx, pre: &mut Vec<Pre>, chi: Chi, ty: &Ty, depth: usize, avoid: &[usize], protect: &[usize]) -> usize {
        let cands: Vec<usize> =
            ctx.iter().filter(|b| b.chi == chi && b.ty == *ty && !avoid.contains(&b.v.i)).map(|b| b.v.i).collect();
        let reuse_pct = if chi == Chi::E { 60 } else { 50 };
        if !cands.is_empty() && (self.rng.pct(reuse_pct) || depth > 3 || self.budget < 0 || ctx.len() + 3 > self.cfg.max_live) {
            return *self.rng.pick(&cands);
        }
        match chi {
            Chi::E => {
                let v = self.fresh("x");
                let lit = self.lit_value();
                pre.push(Pre::Lit { lit, var: v.clone() });
                self.budget -= 1;
                ctx.push(ext(v.clone()));
                v.i
            }
            Chi::P => {
                let ti = self.types.iter().position(|t| Ty::D(t.name.clone()) == *ty).unwrap();
                let nx = self.types[ti].xtors.len();
                let room = self.cfg.max_live.saturating_sub(ctx.len() + 2);
                let mut xi = if depth > 2 || self.budget < 0 { 0 } else { self.rng.below(nx) };
                if self.types[ti].xtors[xi].args.len() > room {
                    xi = 0;
                }
                let x = self.types[ti].xtors[xi].clone();
                let mut ids = Vec::new();
                let mut prot: Vec<usize> = protect.to_vec();
                let fields: Vec<Bind> = x.args.clone();
                for f in &fields {
                    let id = self.ensure(ctx, pre, f.chi, &f.ty, depth + 1, &[], &prot);
                    ids.push(id);
                    prot.push(id);
                }
                // keep everything else, move the fields to the end (dup if a field is protected/used twice)
                let front: Vec<usize> = ctx
                    .iter()
                    .map(|b| b.v.i)
                    .filter(|i| {
                        if !ids.contains(i) {
                            true
                        } else {
                            // consumed by the let: keep a copy only if someone else needs it
                            protect.contains(i) || avoid.contains(i)
                        }
                    })
                    .collect();
                let (nctx, tail_names) = self.arrange(ctx, &front, &ids, pre, false);
                *ctx = nctx;
                let n = tail_names.len();
                let args: Vec<Bind> = ctx[ctx.len() - n..].to_vec();
                ctx.truncate(ctx.len() - n);
                let v = self.fresh("o");
                pre.push(Pre::Let { var: v.clone(), ty: ty.clone(), tag: x.name.clone(), args });
                self.budget -= 1;
                ctx.push(Bind { v: v.clone(), chi: Chi::P, ty: ty.clone() });
                v.i
            }
            Chi::C => {
                let ti = self.types.iter().position(|t| Ty::D(t.name.clone()) == *ty).unwrap();
                let decl = self.types[ti].clone();
                // captured environment: a few variables that nobody else needs
                let mut env_ids = Vec::new();
                let max_arity = decl.xtors.iter().map(|x| x.args.len()).max().unwrap_or(0);
                for b in ctx.iter() {
                    if protect.contains(&b.v.i) || avoid.contains(&b.v.i) {
                        continue;
                    }
                    if env_ids.len() + max_arity + 2 < self.cfg.max_live && env_ids.len() < 9 && self.rng.pct(35) {
                        env_ids.push(b.v.i);
                    }
                }
                let front: Vec<usize> = ctx.iter().map(|b| b.v.i).filter(|i| !env_ids.contains(i) || self.rng.pct(self.cfg.share_pct)).collect();
                let (nctx, tail_names) = self.arrange(ctx, &front, &env_ids, pre, false);
                *ctx = nctx;
                let n = tail_names.len();
                let env: Vec<Bind> = ctx[ctx.len() - n..].to_vec();
                ctx.truncate(ctx.len() - n);
                let mut clauses = Vec::new();
                for x in &decl.xtors {
                    let params: Vec<Bind> = x.args.iter().map(|a| Bind { v: self.fresh("p"), chi: a.chi, ty: a.ty.clone() }).collect();
                    // the environment variables get fresh names inside the method
                    let mut mctx = params.clone();
                    mctx.extend(env.iter().cloned());
                    let body = self.body(mctx, None, depth + 2);
                    clauses.push(Clause { xtor: x.name.clone(), ctx: params, body });
                }
                let v = self.fresh("k");
                pre.push(Pre::Create { var: v.clone(), ty: ty.clone(), env, clauses });
                self.budget -= 1;
                ctx.push(Bind { v: v.clone(), chi: Chi::C, ty: ty.clone() });
                v.i
            }
        }
    }

    fn exit_stmt(&mut self, mut ctx: Ctx, mut pre: Vec<Pre>) -> Rc<Stmt> {
        let id = self.ensure(&mut ctx, &mut pre, Chi::E, &Ty::I64, 9, &[], &[]);
        let v = ctx.iter().find(|b| b.v.i == id).unwrap().v.clone();
        fold(pre, Stmt::Exit { var: v })
    }

    /// generate a statement sequence ending in a terminal
    pub fn body(&mut self, ctx0: Ctx, fuel: Option<Name>, depth: usize) -> Rc<Stmt> {
        let mut ctx = ctx0;
        let mut pre: Vec<Pre> = Vec::new();
        let mut fuel = fuel;
        let mut guard = 0;
        loop {
            guard += 1;
            if self.budget <= 0 || depth > 6 || guard > 40 {
                return self.terminal(ctx, pre, fuel, depth, true);
            }
            let ints: Vec<Name> = ctx.iter().filter(|b| b.chi == Chi::E).map(|b| b.v.clone()).collect();
            let room = ctx.len() + 2 <= self.cfg.max_live;
            let want_more = ctx.len() < self.cfg.target_live;
            let roll = self.rng.below(100);
            if roll < 8 && !want_more {
                return self.terminal(ctx, pre, fuel, depth, false);
            } else if roll < 22 && room {
                let v = self.fresh("x");
                let lit = self.lit_value();
                pre.push(Pre::Lit { lit, var: v.clone() });
                self.budget -= 1;
                ctx.push(ext(v));
            } else if roll < 40 && room && !ints.is_empty() {
                let fst = self.rng.pick(&ints).clone();
                let mut op = *self.rng.pick(&[BinOp::Sum, BinOp::Sub, BinOp::Prod, BinOp::Sum, BinOp::Sub]);
                let mut snd = self.rng.pick(&ints).clone();
                let spill_bonus = if ctx.len() > 12 { 15 } else { 0 };
                if self.rng.pct(self.cfg.divrem_pct + spill_bonus) && ctx.len() + 3 <= self.cfg.max_live {
                    op = if self.rng.pct(50) { BinOp::Div } else { BinOp::Rem };
                    if self.rng.pct(40) {
                        // an existing variable as divisor (the run is discarded if it is zero);
                        // the left-most integer lives in the register that division clobbers on x86-64
                        if self.rng.pct(40) {
                            snd = ints[0].clone();
                        }
                    } else {
                        // fresh non-zero divisor
                        let d = self.fresh("d");
                        let mut lit = self.lit_value();
                        if lit == 0 {
                            lit = 3;
                        }
                        if lit == -1 && self.rng.pct(90) {
                            lit = -3;
                        }
                        pre.push(Pre::Lit { lit, var: d.clone() });
                        self.budget -= 1;
                        ctx.push(ext(d.clone()));
                        snd = d;
                    }
                }
                let v = self.fresh("r");
                pre.push(Pre::Op { fst, op, snd, var: v.clone() });
                self.budget -= 1;
                ctx.push(ext(v));
            } else if roll < 40 + self.cfg.print_pct as usize && !ints.is_empty() {
                let var = self.rng.pick(&ints).clone();
                pre.push(Pre::Print { newline: self.rng.pct(50), var });
                self.budget -= 1;
            } else if roll < 62 && room {
                // build an object or a closure
                let (chi, ty) = loop {
                    let (c, t) = self.random_shape();
                    if c != Chi::E {
                        break (c, t);
                    }
                    if self.types.is_empty() {
                        break (c, t);
                    }
                };
                if chi == Chi::E {
                    continue;
                }
                if chi == Chi::C && !self.rng.pct(self.cfg.closure_pct + 20) {
                    continue;
                }
                let prot: Vec<usize> = fuel.iter().map(|f| f.i).collect();
                // force creation of a new value: avoid all existing candidates
                let avoid: Vec<usize> = ctx.iter().map(|b| b.v.i).collect();
                let _ = self.ensure(&mut ctx, &mut pre, chi, &ty, depth, &avoid, &prot);
                // arrange may have renamed the fuel variable
                if let Some(f) = &fuel {
                    if !ctx.iter().any(|b| b.v.i == f.i) {
                        fuel = None;
                    }
                }
            } else if roll < 72 {
                // pure rearrangement
                let prot: Vec<usize> = fuel.iter().map(|f| f.i).collect();
                let front = self.choose_front(&ctx, &[], &prot);
                let (nctx, _) = self.arrange(&ctx, &front, &[], &mut pre, false);
                ctx = nctx;
                if let Some(f) = &fuel {
                    if !ctx.iter().any(|b| b.v.i == f.i) {
                        fuel = None;
                    }
                }
            } else {
                return self.terminal(ctx, pre, fuel, depth, false);
            }
        }
    }

    fn terminal(&mut self, mut ctx: Ctx, mut pre: Vec<Pre>, fuel: Option<Name>, depth: usize, finish: bool) -> Rc<Stmt> {
        if depth > 8 {
            return self.exit_stmt(ctx, pre);
        }
        if fuel.is_some() && self.cfg.call_bias > 0 && self.rng.pct(self.cfg.call_bias) {
            if let Some(st) = self.try_call(&mut ctx, &mut pre, &fuel, depth, true) {
                return fold(pre, st);
            }
        }
        let prot: Vec<usize> = fuel.iter().map(|f| f.i).collect();
        let objs: Vec<Bind> = ctx.iter().filter(|b| b.chi == Chi::P).cloned().collect();
        let clos: Vec<Bind> = ctx.iter().filter(|b| b.chi == Chi::C).cloned().collect();
        let ints: Vec<Name> = ctx.iter().filter(|b| b.chi == Chi::E).map(|b| b.v.clone()).collect();
        let roll = self.rng.below(100);
        let deep = depth > 5 || self.budget < -20;
        // switch on an object
        if !objs.is_empty() && !deep && (roll < 40 || (finish && roll < 60)) {
            let o = self.rng.pick(&objs).clone();
            let decl = self.types.iter().find(|t| Ty::D(t.name.clone()) == o.ty).unwrap().clone();
            let max_arity = decl.xtors.iter().map(|x| x.args.len()).max().unwrap_or(0);
            let mut front = self.choose_front(&ctx, &[o.v.i], &prot);
            while front.len() + max_arity + 2 > self.cfg.max_live && !front.is_empty() {
                let k = self.rng.below(front.len());
                front.remove(k);
            }
            let (nctx, tail) = self.arrange(&ctx, &front, &[o.v.i], &mut pre, false);
            let var = tail[0].clone();
            let rest: Ctx = nctx[..nctx.len() - 1].to_vec();
            let fuel2 = fuel.filter(|f| rest.iter().any(|b| b.v.i == f.i));
            let mut clauses = Vec::new();
            self.budget -= 1;
            for x in &decl.xtors {
                let binders: Vec<Bind> = x.args.iter().map(|a| Bind { v: self.fresh("f"), chi: a.chi, ty: a.ty.clone() }).collect();
                let mut cctx = rest.clone();
                cctx.extend(binders.iter().cloned());
                let body = self.body(cctx, fuel2.clone(), depth + 1);
                clauses.push(Clause { xtor: x.name.clone(), ctx: binders, body });
            }
            return fold(pre, Stmt::Switch { var, ty: o.ty.clone(), clauses });
        }
        // conditional
        if !ints.is_empty() && !deep && roll < 60 {
            let fst = self.rng.pick(&ints).clone();
            let snd = if self.rng.pct(50) { Some(self.rng.pick(&ints).clone()) } else { None };
            let sort = *self.rng.pick(&[IfSort::Eq, IfSort::Ne, IfSort::Lt, IfSort::Le, IfSort::Gt, IfSort::Ge]);
            self.budget -= 1;
            let thenc = self.body(ctx.clone(), fuel.clone(), depth + 1);
            let elsec = self.body(ctx.clone(), fuel.clone(), depth + 1);
            return fold(pre, Stmt::If { sort, fst, snd, thenc, elsec });
        }
        // invoke a closure
        if !clos.is_empty() && roll < 80 {
            let c = self.rng.pick(&clos).clone();
            let decl = self.types.iter().find(|t| Ty::D(t.name.clone()) == c.ty).unwrap().clone();
            let x = self.rng.pick(&decl.xtors).clone();
            if x.args.len() + 2 <= self.cfg.max_live {
                let mut ids = Vec::new();
                let mut prot2 = vec![c.v.i];
                for a in &x.args {
                    let id = self.ensure(&mut ctx, &mut pre, a.chi, &a.ty, depth + 2, &[c.v.i], &prot2);
                    ids.push(id);
                    prot2.push(id);
                }
                // the closure variable may have been renamed by an arrange inside ensure
                if ctx.iter().any(|b| b.v.i == c.v.i) && ids.iter().all(|i| ctx.iter().any(|b| b.v.i == *i)) {
                    let mut tail = ids.clone();
                    tail.push(c.v.i);
                    let (nctx, _) = self.arrange(&ctx, &[], &tail, &mut pre, false);
                    let args: Vec<Bind> = nctx[..nctx.len() - 1].to_vec();
                    let var = nctx.last().unwrap().v.clone();
                    self.budget -= 1;
                    return fold(pre, Stmt::Invoke { var, tag: x.name.clone(), ty: c.ty.clone(), args });
                }
            }
        }
        if let Some(st) = self.try_call(&mut ctx, &mut pre, &fuel, depth, roll < 97) {
            return fold(pre, st);
        }
        self.exit_stmt(ctx, pre)
    }


    /// call a definition, passing strictly less fuel
    fn try_call(&mut self, ctx: &mut Ctx, pre: &mut Vec<Pre>, fuel: &Option<Name>, depth: usize, allowed: bool) -> Option<Stmt> {
        let f = fuel.clone()?;
        if !(allowed && self.sigs.len() > 1 && ctx.iter().any(|b| b.v.i == f.i) && ctx.len() + 3 <= self.cfg.max_live) {
            return None;
        }
        let di = 1 + self.rng.below(self.sigs.len() - 1);
        let sig = self.sigs[di].clone();
        if sig.len() + 3 > self.cfg.max_live {
            return None;
        }
        let one = self.fresh("one");
        pre.push(Pre::Lit { lit: 1, var: one.clone() });
        ctx.push(ext(one.clone()));
        let nf = self.fresh("n");
        pre.push(Pre::Op { fst: f.clone(), op: BinOp::Sub, snd: one.clone(), var: nf.clone() });
        ctx.push(ext(nf.clone()));
        self.budget -= 2;
        let mut ids = vec![nf.i];
        let mut prot2 = vec![nf.i];
        let avoid = vec![nf.i, f.i, one.i];
        for p in sig.iter().skip(1) {
            let id = self.ensure(ctx, pre, p.chi, &p.ty, depth + 2, &avoid, &prot2);
            if !ctx.iter().any(|b| b.v.i == nf.i) {
                return None;
            }
            ids.push(id);
            prot2.push(id);
        }
        if !ids.iter().all(|i| ctx.iter().any(|b| b.v.i == *i)) {
            return None;
        }
        let (nctx, _) = self.arrange(ctx, &[], &ids, pre, false);
        self.budget -= 1;
        Some(Stmt::Call { label: self.def_names[di].clone(), args: nctx })
    }

    pub fn program(mut self) -> Prog {
        // signatures: def 0 = main(k integer arguments); others: (fuel, random shapes)
        let mut sigs = Vec::new();
        let mut names = vec![Name::new("main", 0)];
        let mut main_sig = Vec::new();
        for _ in 0..self.cfg.n_args {
            main_sig.push(ext(self.fresh("arg")));
        }
        sigs.push(main_sig);
        for i in 1..self.cfg.n_defs {
            let mut s = vec![ext(self.fresh("fuel"))];
            let np = self.rng.below((self.cfg.target_live + 2).min(self.cfg.max_live.saturating_sub(4)).max(1));
            for _ in 0..np {
                let (chi, ty) = self.random_shape();
                s.push(Bind { v: self.fresh("q"), chi, ty });
            }
            sigs.push(s);
            names.push(Name::new("f", i));
        }
        self.sigs = sigs.clone();
        self.def_names = names.clone();
        let per_def = (self.cfg.max_stmts / self.cfg.n_defs.max(1)).max(6) as isize;
        let mut defs = Vec::new();
        for (i, sig) in sigs.iter().enumerate() {
            self.budget = per_def;
            let body = if i == 0 {
                let mut pre = Vec::new();
                let mut ctx = sig.clone();
                // padding variables slide the interesting window across the register/spill boundary
                for _ in 0..self.cfg.pad.min(self.cfg.max_live.saturating_sub(ctx.len() + 4)) {
                    let v = self.fresh("pad");
                    let lit = self.lit_value();
                    pre.push(Pre::Lit { lit, var: v.clone() });
                    ctx.push(ext(v));
                }
                let f = if self.cfg.fuel < 0 && !sig.is_empty() {
                    sig[0].v.clone()
                } else {
                    let f = self.fresh("fuel");
                    pre.push(Pre::Lit { lit: self.cfg.fuel.max(0), var: f.clone() });
                    ctx.push(ext(f.clone()));
                    f
                };
                let rest = self.body(ctx, Some(f), 0);
                fold(pre, (*rest).clone())
            } else {
                // if fuel <= 0 then finish else continue
                let f = sig[0].v.clone();
                let ctx = sig.clone();
                let save = self.budget;
                self.budget = 2;
                let base = self.body(ctx.clone(), None, 5);
                self.budget = save;
                let go = self.body(ctx, Some(f.clone()), 0);
                Rc::new(Stmt::If { sort: IfSort::Le, fst: f, snd: None, thenc: base, elsec: go })
            };
            defs.push(Def { name: names[i].clone(), params: sig.clone(), body });
        }
        Prog { types: self.types, defs, max_id: self.next_id + 1 }
    }
}

pub fn gen_program(rng: &mut Rng, cfg: &GenCfg) -> Prog {
    Gen::new(rng, cfg.clone()).program()
}
