//! Greedy delta debugging of a finding: shrink the program, the arguments and the fault plan while
//! the same violation class (same property, class, backend) persists.

use crate::ast::*;
use crate::orch::{Replay, replay_findings};
use crate::refm;
use std::rc::Rc;

fn count(s: &Stmt) -> usize {
    s.size()
}

/// replace the statement with pre-order index `k` by `lit z <- 0; exit z`
fn replace_at(s: &Rc<Stmt>, k: &mut isize, fresh: usize) -> Rc<Stmt> {
    if *k == 0 {
        *k = -1;
        let z = Name::new("z", fresh);
        return Rc::new(Stmt::Lit { lit: 0, var: z.clone(), next: Rc::new(Stmt::Exit { var: z }) });
    }
    if *k < 0 {
        return s.clone();
    }
    *k -= 1;
    let r = |n: &Rc<Stmt>, k: &mut isize| replace_at(n, k, fresh);
    let cl = |cs: &Vec<Clause>, k: &mut isize| -> Vec<Clause> {
        cs.iter().map(|c| Clause { xtor: c.xtor.clone(), ctx: c.ctx.clone(), body: replace_at(&c.body, k, fresh) }).collect()
    };
    Rc::new(match &**s {
        Stmt::Subst { map, next } => Stmt::Subst { map: map.clone(), next: r(next, k) },
        Stmt::Let { var, ty, tag, args, next } => Stmt::Let { var: var.clone(), ty: ty.clone(), tag: tag.clone(), args: args.clone(), next: r(next, k) },
        Stmt::Lit { lit, var, next } => Stmt::Lit { lit: *lit, var: var.clone(), next: r(next, k) },
        Stmt::Op { fst, op, snd, var, next } => Stmt::Op { fst: fst.clone(), op: *op, snd: snd.clone(), var: var.clone(), next: r(next, k) },
        Stmt::Print { newline, var, next } => Stmt::Print { newline: *newline, var: var.clone(), next: r(next, k) },
        Stmt::Create { var, ty, env, clauses, next } => {
            let c2 = cl(clauses, k);
            Stmt::Create { var: var.clone(), ty: ty.clone(), env: env.clone(), clauses: c2, next: r(next, k) }
        }
        Stmt::Switch { var, ty, clauses } => Stmt::Switch { var: var.clone(), ty: ty.clone(), clauses: cl(clauses, k) },
        Stmt::If { sort, fst, snd, thenc, elsec } => {
            let t = r(thenc, k);
            let e = r(elsec, k);
            Stmt::If { sort: *sort, fst: fst.clone(), snd: snd.clone(), thenc: t, elsec: e }
        }
        other => other.clone(),
    })
}

/// replace the conditional with pre-order index `k` by one of its branches
fn collapse_if(s: &Rc<Stmt>, k: &mut isize, take_then: bool) -> Rc<Stmt> {
    if *k < 0 {
        return s.clone();
    }
    if *k == 0 {
        *k = -1;
        if let Stmt::If { thenc, elsec, .. } = &**s {
            return if take_then { thenc.clone() } else { elsec.clone() };
        }
        return s.clone();
    }
    *k -= 1;
    let cl = |cs: &Vec<Clause>, k: &mut isize| -> Vec<Clause> {
        cs.iter().map(|c| Clause { xtor: c.xtor.clone(), ctx: c.ctx.clone(), body: collapse_if(&c.body, k, take_then) }).collect()
    };
    Rc::new(match &**s {
        Stmt::Subst { map, next } => Stmt::Subst { map: map.clone(), next: collapse_if(next, k, take_then) },
        Stmt::Let { var, ty, tag, args, next } => Stmt::Let { var: var.clone(), ty: ty.clone(), tag: tag.clone(), args: args.clone(), next: collapse_if(next, k, take_then) },
        Stmt::Lit { lit, var, next } => Stmt::Lit { lit: *lit, var: var.clone(), next: collapse_if(next, k, take_then) },
        Stmt::Op { fst, op, snd, var, next } => Stmt::Op { fst: fst.clone(), op: *op, snd: snd.clone(), var: var.clone(), next: collapse_if(next, k, take_then) },
        Stmt::Print { newline, var, next } => Stmt::Print { newline: *newline, var: var.clone(), next: collapse_if(next, k, take_then) },
        Stmt::Create { var, ty, env, clauses, next } => {
            let c2 = cl(clauses, k);
            Stmt::Create { var: var.clone(), ty: ty.clone(), env: env.clone(), clauses: c2, next: collapse_if(next, k, take_then) }
        }
        Stmt::Switch { var, ty, clauses } => Stmt::Switch { var: var.clone(), ty: ty.clone(), clauses: cl(clauses, k) },
        Stmt::If { sort, fst, snd, thenc, elsec } => {
            let t = collapse_if(thenc, k, take_then);
            let e = collapse_if(elsec, k, take_then);
            Stmt::If { sort: *sort, fst: fst.clone(), snd: snd.clone(), thenc: t, elsec: e }
        }
        other => other.clone(),
    })
}

/// drop the linear statement with pre-order index `k` (lit / op / print), keeping its continuation
fn drop_at(s: &Rc<Stmt>, k: &mut isize) -> Rc<Stmt> {
    if *k == 0 {
        *k = -1;
        match &**s {
            Stmt::Lit { next, .. } | Stmt::Op { next, .. } | Stmt::Print { next, .. } | Stmt::Subst { next, .. } => return next.clone(),
            _ => return s.clone(),
        }
    }
    if *k < 0 {
        return s.clone();
    }
    *k -= 1;
    let cl = |cs: &Vec<Clause>, k: &mut isize| -> Vec<Clause> {
        cs.iter().map(|c| Clause { xtor: c.xtor.clone(), ctx: c.ctx.clone(), body: drop_at(&c.body, k) }).collect()
    };
    Rc::new(match &**s {
        Stmt::Subst { map, next } => Stmt::Subst { map: map.clone(), next: drop_at(next, k) },
        Stmt::Let { var, ty, tag, args, next } => Stmt::Let { var: var.clone(), ty: ty.clone(), tag: tag.clone(), args: args.clone(), next: drop_at(next, k) },
        Stmt::Lit { lit, var, next } => Stmt::Lit { lit: *lit, var: var.clone(), next: drop_at(next, k) },
        Stmt::Op { fst, op, snd, var, next } => Stmt::Op { fst: fst.clone(), op: *op, snd: snd.clone(), var: var.clone(), next: drop_at(next, k) },
        Stmt::Print { newline, var, next } => Stmt::Print { newline: *newline, var: var.clone(), next: drop_at(next, k) },
        Stmt::Create { var, ty, env, clauses, next } => {
            let c2 = cl(clauses, k);
            Stmt::Create { var: var.clone(), ty: ty.clone(), env: env.clone(), clauses: c2, next: drop_at(next, k) }
        }
        Stmt::Switch { var, ty, clauses } => Stmt::Switch { var: var.clone(), ty: ty.clone(), clauses: cl(clauses, k) },
        Stmt::If { sort, fst, snd, thenc, elsec } => {
            let t = drop_at(thenc, k);
            let e = drop_at(elsec, k);
            Stmt::If { sort: *sort, fst: fst.clone(), snd: snd.clone(), thenc: t, elsec: e }
        }
        other => other.clone(),
    })
}

/// shrink literal with pre-order index `k` to `val`
fn lit_at(s: &Rc<Stmt>, k: &mut isize, val: i64) -> Rc<Stmt> {
    if *k < 0 {
        return s.clone();
    }
    let here = *k == 0;
    *k -= 1;
    if here {
        *k = -1;
        if let Stmt::Lit { var, next, .. } = &**s {
            return Rc::new(Stmt::Lit { lit: val, var: var.clone(), next: next.clone() });
        }
        return s.clone();
    }
    let cl = |cs: &Vec<Clause>, k: &mut isize| -> Vec<Clause> {
        cs.iter().map(|c| Clause { xtor: c.xtor.clone(), ctx: c.ctx.clone(), body: lit_at(&c.body, k, val) }).collect()
    };
    Rc::new(match &**s {
        Stmt::Subst { map, next } => Stmt::Subst { map: map.clone(), next: lit_at(next, k, val) },
        Stmt::Let { var, ty, tag, args, next } => Stmt::Let { var: var.clone(), ty: ty.clone(), tag: tag.clone(), args: args.clone(), next: lit_at(next, k, val) },
        Stmt::Lit { lit, var, next } => Stmt::Lit { lit: *lit, var: var.clone(), next: lit_at(next, k, val) },
        Stmt::Op { fst, op, snd, var, next } => Stmt::Op { fst: fst.clone(), op: *op, snd: snd.clone(), var: var.clone(), next: lit_at(next, k, val) },
        Stmt::Print { newline, var, next } => Stmt::Print { newline: *newline, var: var.clone(), next: lit_at(next, k, val) },
        Stmt::Create { var, ty, env, clauses, next } => {
            let c2 = cl(clauses, k);
            Stmt::Create { var: var.clone(), ty: ty.clone(), env: env.clone(), clauses: c2, next: lit_at(next, k, val) }
        }
        Stmt::Switch { var, ty, clauses } => Stmt::Switch { var: var.clone(), ty: ty.clone(), clauses: cl(clauses, k) },
        Stmt::If { sort, fst, snd, thenc, elsec } => {
            let t = lit_at(thenc, k, val);
            let e = lit_at(elsec, k, val);
            Stmt::If { sort: *sort, fst: fst.clone(), snd: snd.clone(), thenc: t, elsec: e }
        }
        other => other.clone(),
    })
}

fn lits(s: &Stmt, k: &mut usize, out: &mut Vec<(usize, i64)>) {
    let me = *k;
    *k += 1;
    match s {
        Stmt::Lit { lit, next, .. } => {
            out.push((me, *lit));
            lits(next, k, out);
        }
        Stmt::Subst { next, .. } | Stmt::Let { next, .. } | Stmt::Op { next, .. } | Stmt::Print { next, .. } => lits(next, k, out),
        Stmt::Create { clauses, next, .. } => {
            for c in clauses {
                lits(&c.body, k, out);
            }
            lits(next, k, out);
        }
        Stmt::Switch { clauses, .. } => {
            for c in clauses {
                lits(&c.body, k, out);
            }
        }
        Stmt::If { thenc, elsec, .. } => {
            lits(thenc, k, out);
            lits(elsec, k, out);
        }
        _ => {}
    }
}

fn called(s: &Stmt, out: &mut Vec<Name>) {
    match s {
        Stmt::Call { label, .. } => out.push(label.clone()),
        Stmt::Subst { next, .. } | Stmt::Let { next, .. } | Stmt::Lit { next, .. } | Stmt::Op { next, .. } | Stmt::Print { next, .. } => called(next, out),
        Stmt::Create { clauses, next, .. } => {
            for c in clauses {
                called(&c.body, out);
            }
            called(next, out);
        }
        Stmt::Switch { clauses, .. } => {
            for c in clauses {
                called(&c.body, out);
            }
        }
        Stmt::If { thenc, elsec, .. } => {
            called(thenc, out);
            called(elsec, out);
        }
        _ => {}
    }
}

fn valid(p: &Prog, args: &[i64]) -> bool {
    if refm::check_prog(p).is_err() {
        return false;
    }
    matches!(refm::run(p, args, 100_000).end, refm::RefEnd::Exit(_))
}

pub fn minimize(rp: &mut Replay, mut attempts: usize) {
    let fails = |rp: &Replay| -> Option<String> { replay_findings(rp).first().map(|f| f.msg.clone()) };
    // make sure it reproduces in-process at all
    match fails(rp) {
        Some(m) => rp.message = m,
        None => return,
    }
    let structural = rp.scenario.kind != "subst";
    let mut progress = true;
    while progress && attempts > 0 {
        progress = false;
        // 1. fault plan
        let mut tries: Vec<crate::mach::EnvPlan> = Vec::new();
        let pl = rp.plan.clone();
        if pl.e1_regs {
            let mut q = pl.clone();
            q.e1_regs = false;
            tries.push(q);
        }
        if pl.e2_flags {
            let mut q = pl.clone();
            q.e2_flags = false;
            tries.push(q);
        }
        if pl.e3_depth > 0 {
            let mut q = pl.clone();
            q.e3_depth = 0;
            tries.push(q);
            if pl.e3_depth > 1 {
                let mut q = pl.clone();
                q.e3_depth = pl.e3_depth / 2;
                tries.push(q);
            }
        }
        if pl.e4_entry {
            let mut q = pl.clone();
            q.e4_entry = false;
            tries.push(q);
        }
        if pl.e6_stack {
            let mut q = pl.clone();
            q.e6_stack = false;
            tries.push(q);
        }
        for q in tries {
            if attempts == 0 {
                break;
            }
            attempts -= 1;
            let mut cand = rp.clone();
            cand.plan = q;
            if !cand.plan.is_hostile() && rp.config == "hostile" {
                cand.config = "benign".into();
            }
            if let Some(m) = fails(&cand) {
                cand.message = m;
                *rp = cand;
                progress = true;
            }
        }
        if !structural {
            continue;
        }
        // 2. remove uncalled definitions
        let mut names = Vec::new();
        for d in &rp.scenario.prog.defs {
            called(&d.body, &mut names);
        }
        let keep: Vec<Def> = rp.scenario.prog.defs.iter().enumerate().filter(|(i, d)| *i == 0 || names.contains(&d.name)).map(|(_, d)| d.clone()).collect();
        if keep.len() < rp.scenario.prog.defs.len() && attempts > 0 {
            attempts -= 1;
            let mut cand = rp.clone();
            cand.scenario.prog.defs = keep;
            if valid(&cand.scenario.prog, &cand.scenario.args) {
                if let Some(m) = fails(&cand) {
                    cand.message = m;
                    *rp = cand;
                    progress = true;
                }
            }
        }
        // 3. cut sub-statements (largest first: low pre-order indices of each def)
        for di in 0..rp.scenario.prog.defs.len() {
            let mut k = 1usize;
            loop {
                let n = count(&rp.scenario.prog.defs[di].body);
                if k >= n || attempts == 0 {
                    break;
                }
                let mut kk = k as isize;
                let nb = replace_at(&rp.scenario.prog.defs[di].body, &mut kk, rp.scenario.prog.max_id + 1);
                let mut cand = rp.clone();
                cand.scenario.prog.defs[di].body = nb;
                cand.scenario.prog.max_id += 1;
                if count(&cand.scenario.prog.defs[di].body) < n && valid(&cand.scenario.prog, &cand.scenario.args) {
                    attempts -= 1;
                    if let Some(m) = fails(&cand) {
                        cand.message = m;
                        *rp = cand;
                        progress = true;
                        continue;
                    }
                }
                k += 1;
            }
        }
        // 3b. collapse conditionals to one branch
        for di in 0..rp.scenario.prog.defs.len() {
            let mut k = 0usize;
            loop {
                let n = count(&rp.scenario.prog.defs[di].body);
                if k >= n || attempts == 0 {
                    break;
                }
                let mut advanced = false;
                for take_then in [true, false] {
                    let mut kk = k as isize;
                    let nb = collapse_if(&rp.scenario.prog.defs[di].body, &mut kk, take_then);
                    if count(&nb) >= n {
                        continue;
                    }
                    let mut cand = rp.clone();
                    cand.scenario.prog.defs[di].body = nb;
                    if valid(&cand.scenario.prog, &cand.scenario.args) {
                        attempts -= 1;
                        if let Some(m) = fails(&cand) {
                            cand.message = m;
                            *rp = cand;
                            progress = true;
                            advanced = true;
                            break;
                        }
                    }
                }
                if !advanced {
                    k += 1;
                }
            }
        }
        // 4. drop single linear statements
        for di in 0..rp.scenario.prog.defs.len() {
            let mut k = 0usize;
            loop {
                let n = count(&rp.scenario.prog.defs[di].body);
                if k >= n || attempts == 0 {
                    break;
                }
                let mut kk = k as isize;
                let nb = drop_at(&rp.scenario.prog.defs[di].body, &mut kk);
                let mut cand = rp.clone();
                cand.scenario.prog.defs[di].body = nb;
                if count(&cand.scenario.prog.defs[di].body) < n && valid(&cand.scenario.prog, &cand.scenario.args) {
                    attempts -= 1;
                    if let Some(m) = fails(&cand) {
                        cand.message = m;
                        *rp = cand;
                        progress = true;
                        continue;
                    }
                }
                k += 1;
            }
        }
        // 5. literals and arguments towards 0 / 1
        for di in 0..rp.scenario.prog.defs.len() {
            let mut ls = Vec::new();
            let mut k = 0;
            lits(&rp.scenario.prog.defs[di].body, &mut k, &mut ls);
            for (idx, val) in ls {
                for small in [0i64, 1] {
                    if val == small || val == 0 || attempts == 0 {
                        continue;
                    }
                    let mut kk = idx as isize;
                    let nb = lit_at(&rp.scenario.prog.defs[di].body, &mut kk, small);
                    let mut cand = rp.clone();
                    cand.scenario.prog.defs[di].body = nb;
                    if valid(&cand.scenario.prog, &cand.scenario.args) {
                        attempts -= 1;
                        if let Some(m) = fails(&cand) {
                            cand.message = m;
                            *rp = cand;
                            progress = true;
                            break;
                        }
                    }
                }
            }
        }
        for ai in 0..rp.scenario.args.len() {
            if rp.scenario.args[ai] != 0 && attempts > 0 {
                let mut cand = rp.clone();
                cand.scenario.args[ai] = 0;
                if valid(&cand.scenario.prog, &cand.scenario.args) {
                    attempts -= 1;
                    if let Some(m) = fails(&cand) {
                        cand.message = m;
                        *rp = cand;
                        progress = true;
                    }
                }
            }
        }
    }
    rp.minimised = true;
}
