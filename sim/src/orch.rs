//! Orchestrator: spawns sequential worker processes, aggregates their findings and statistics,
//! minimises and replays findings, consults the known-findings file, writes evidence.

use crate::compile::Backend;
use crate::mach::Class;
use crate::prng::Rng;
use crate::run::*;
use crate::{minimize, workloads};
use serde::{Deserialize, Serialize};
use std::collections::{BTreeMap, BTreeSet};
use std::io::{BufRead, BufReader, Write};
use std::process::{Command, Stdio};

/// output root (evidence, replays, work, known findings); VERIF_OUT overrides it so that seeded
/// changes can be evaluated in a scratch copy without touching /verif
pub fn verif_dir() -> String {
    std::env::var("VERIF_OUT").unwrap_or_else(|_| "/verif".to_string())
}

/// root of the repository under test (corpus files); VERIF_REPO overrides it
pub fn repo_dir() -> String {
    std::env::var("VERIF_REPO").unwrap_or_else(|_| "/repo".to_string())
}

#[derive(Clone, Debug)]
pub struct CheckCfg {
    pub id: String,
    pub runs: u64,
    pub max_stmts: usize,
    pub workloads: Vec<&'static str>,
    pub backends: Vec<Backend>,
    pub check_heap: bool,
    pub hostile: bool,
}

pub fn check_cfg(id: &str, tier: &str) -> Option<CheckCfg> {
    let thorough = tier == "thorough";
    let scale = |q: u64, t: u64| if thorough { t } else { q };
    let ms = if thorough { 250 } else { 60 };
    use Backend::*;
    Some(match id {
        "C06" => CheckCfg { id: id.into(), runs: scale(30_000, 600_000), max_stmts: ms, workloads: vec!["gen", "corpus", "abi", "pipe", "ops"], backends: vec![X86], check_heap: false, hostile: true },
        "C07" => CheckCfg { id: id.into(), runs: scale(30_000, 600_000), max_stmts: ms, workloads: vec!["gen", "corpus", "abi", "pipe", "ops"], backends: vec![A64], check_heap: false, hostile: true },
        "C08" => CheckCfg { id: id.into(), runs: scale(25_000, 500_000), max_stmts: ms, workloads: vec!["gen-rv", "corpus", "pipe-rv", "ops-rv"], backends: vec![Rv, X86, A64], check_heap: false, hostile: true },
        "C09" => CheckCfg { id: id.into(), runs: scale(10_000, 400_000), max_stmts: ms, workloads: vec!["gen", "gen-rv", "loop", "loop2", "corpus", "pipe"], backends: vec![X86, A64, Rv], check_heap: true, hostile: false },
        "C10" => CheckCfg { id: id.into(), runs: scale(6000, 200_000), max_stmts: ms, workloads: vec!["loop2", "loop", "gen"], backends: vec![X86, A64, Rv], check_heap: true, hostile: false },
        "C11" => CheckCfg { id: id.into(), runs: scale(48_000, 1_500_000), max_stmts: ms, workloads: vec!["subst"], backends: vec![X86, A64, Rv], check_heap: true, hostile: false },
        "C13" => CheckCfg { id: id.into(), runs: scale(24_000, 600_000), max_stmts: ms, workloads: vec!["abi", "gen", "pipe"], backends: vec![X86, A64], check_heap: false, hostile: true },
        _ => return None,
    })
}

#[derive(Serialize, Deserialize, Clone, Debug)]
pub struct FoundLine {
    pub run: u64,
    pub finding: Finding,
    pub scenario: Scenario,
}

#[derive(Serialize, Deserialize, Clone, Debug, Default)]
pub struct WorkerSummary {
    pub stats: Stats,
    pub hashes: Vec<u64>,
    pub samples: Vec<serde_json::Value>,
    pub harness: Option<String>,
}

#[derive(Serialize, Deserialize, Clone, Debug)]
pub struct Replay {
    pub engine: String,
    pub property: String,
    pub class: Class,
    pub backend: Backend,
    pub message: String,
    pub verif_seed: u64,
    pub run: u64,
    pub config: String,
    pub plan: crate::mach::EnvPlan,
    pub scenario: Scenario,
    pub minimised: bool,
    pub check_heap: bool,
}

fn scenario_hash(sc: &Scenario) -> u64 {
    crate::prng::hash_str(&serde_json::to_string(sc).unwrap())
}

pub fn render_sample(sc: &Scenario) -> serde_json::Value {
    use printer::Print;
    let text = crate::ast::to_axcut(&sc.prog).print_to_string(None);
    let text: String = text.chars().take(1500).collect();
    serde_json::json!({"workload": sc.kind, "args": sc.args, "statements": sc.prog.stmt_count(), "axcut": text})
}

/// worker: runs indices w, w+n, ... strictly sequentially
/// child side of the minimisation: minimise the replay in `path` in place
pub fn mmin(path: &str) -> i32 {
    let Some(mut rp) = std::fs::read_to_string(path).ok().and_then(|t| from_json::<Replay>(&t).ok()) else { return 2 };
    minimize::minimize(&mut rp, 600);
    if std::fs::write(path, serde_json::to_string(&rp).unwrap()).is_err() {
        return 2;
    }
    0
}

pub fn worker(id: &str, tier: &str, seed: u64, w: u64, n: u64) -> i32 {
    let Some(cfg) = check_cfg(id, tier) else { return 2 };
    let rcfg = RunCfg { backends: cfg.backends.clone(), check_heap: cfg.check_heap, hostile: cfg.hostile, record_snaps: 0, ref_budget: 400_000 };
    let report_prop = std::env::var("VERIF_REPORT_PROP").unwrap_or_else(|_| id.to_string());
    let mut sum = WorkerSummary::default();
    let mut seen: BTreeSet<u64> = BTreeSet::new();
    let stdout = std::io::stdout();
    let mut i = worker_start(w);
    while i < cfg.runs {
        announce(i);
        let mut rng = Rng::keyed(seed, i, "workload");
        let (wl, k) = workloads::pick(&cfg, i);
        let mut sc = match workloads::make(wl, &mut rng, &cfg, k) {
            Some(s) => s,
            None => {
                sum.stats.discard("workload exhausted");
                i += n;
                continue;
            }
        };
        // one run in eight hands the program over with noisy display names: occurrences of one
        // variable (same id) are spelled differently, which must not matter
        let mut nrng = Rng::keyed(seed, i, "name-noise");
        if nrng.pct(12) {
            sc.noise = nrng.next() | 1;
            sum.stats.note("programs handed over with noisy display names");
        }
        let mut prng = Rng::keyed(seed, i, "plans");
        let keys = Rng::keyed(seed, i, "hashkeys").next();
        let r = match std::panic::catch_unwind(std::panic::AssertUnwindSafe(|| workloads::run(wl, &sc, &rcfg, &mut prng, keys, &mut sum.stats))) {
            Ok(r) => r,
            Err(e) => {
                sum.harness = Some(format!("run {i} ({wl}): simulator panicked: {}", crate::seam::panic_msg(&e)));
                let mut o = stdout.lock();
                let _ = writeln!(o, "{}", serde_json::to_string(&serde_json::json!({"summary": sum})).unwrap());
                return 2;
            }
        };
        if let Some(h) = r.harness {
            sum.harness = Some(format!("run {i} ({wl}): {h}"));
            let mut o = stdout.lock();
            let _ = writeln!(o, "{}", serde_json::to_string(&serde_json::json!({"summary": sum})).unwrap());
            return 2;
        }
        let nontrivial = r.reference.as_ref().map(|ro| ro.steps >= 6).unwrap_or(false);
        if nontrivial && seen.len() < 300_000 {
            seen.insert(scenario_hash(&sc));
        }
        if sum.samples.len() < 2 && nontrivial && sc.prog.stmt_count() >= 8 && sc.prog.stmt_count() <= 40 {
            sum.samples.push(render_sample(&sc));
        }
        for f in r.findings {
            *sum.stats.classes.entry(format!("{}:{:?}:{}", f.prop, f.class, f.backend.name())).or_default() += 1;
            if f.prop == report_prop {
                let mut sc2 = sc.clone();
                if let Some(a) = &f.args {
                    sc2.args = a.clone();
                }
                let line = FoundLine { run: i, finding: f, scenario: sc2 };
                let mut o = stdout.lock();
                let _ = writeln!(o, "{}", serde_json::to_string(&serde_json::json!({"found": line})).unwrap());
            } else {
                *sum.stats.other_findings.entry(f.prop.clone()).or_default() += 1;
            }
        }
        i += n;
    }
    sum.hashes = seen.into_iter().collect();
    let mut o = stdout.lock();
    let _ = writeln!(o, "{}", serde_json::to_string(&serde_json::json!({"summary": sum})).unwrap());
    0
}

/// JSON without serde_json's nesting limit of 128: a straight-line program of 130 statements is a
/// value nested 130 deep, and a finding that does not parse must never be dropped silently.
pub fn from_json<T: serde::de::DeserializeOwned>(s: &str) -> Result<T, serde_json::Error> {
    let mut de = serde_json::Deserializer::from_str(s);
    de.disable_recursion_limit();
    let v = T::deserialize(&mut de)?;
    de.end()?;
    Ok(v)
}

/// Environment variable through which a restarted worker learns where to continue.
pub const START_ENV: &str = "VERIF_WORKER_START";

pub fn worker_start(default: u64) -> u64 {
    std::env::var(START_ENV).ok().and_then(|s| s.parse().ok()).unwrap_or(default)
}

/// announce the unit of work a worker is about to start (the supervisor restarts after it if the
/// code under test brings the whole process down, e.g. by a stack overflow)
pub fn announce(i: u64) {
    let o = std::io::stdout();
    let mut o = o.lock();
    let _ = writeln!(o, "{{\"at\":{i}}}");
    let _ = o.flush();
}

/// Run `nw` worker processes; a worker that is killed by a signal (the compiler under test
/// crashed the process) is restarted behind the unit of work it had announced, and the crash is
/// returned as a note. Returns all output lines and the crash notes.
pub fn supervise(nw: u64, mk: &dyn Fn(u64) -> Command) -> Result<(Vec<String>, Vec<String>), String> {
    use std::sync::atomic::{AtomicBool, Ordering};
    use std::sync::{Arc, Mutex};
    // a single run (compile + bounded emulation) that makes no progress for this long is killed
    let limit = std::time::Duration::from_secs(std::env::var("VERIF_RUN_TIMEOUT").ok().and_then(|s| s.parse().ok()).unwrap_or(900));
    type Collected = (Vec<String>, Option<i32>, bool);
    let start = |w: u64, from: Option<u64>| -> Result<std::thread::JoinHandle<Collected>, String> {
        let mut cmd = mk(w);
        if let Some(f) = from {
            cmd.env(START_ENV, f.to_string());
        }
        let mut c = cmd.stdout(Stdio::piped()).stderr(Stdio::null()).spawn().map_err(|e| e.to_string())?;
        let out = c.stdout.take().unwrap();
        let pid = c.id() as i32;
        let last = Arc::new(Mutex::new(std::time::Instant::now()));
        let done = Arc::new(AtomicBool::new(false));
        let hung = Arc::new(AtomicBool::new(false));
        {
            let (last, done, hung) = (last.clone(), done.clone(), hung.clone());
            std::thread::spawn(move || {
                while !done.load(Ordering::SeqCst) {
                    std::thread::sleep(std::time::Duration::from_millis(500));
                    if last.lock().unwrap().elapsed() > limit && !done.load(Ordering::SeqCst) {
                        hung.store(true, Ordering::SeqCst);
                        unsafe {
                            libc::kill(pid, libc::SIGKILL);
                        }
                        break;
                    }
                }
            });
        }
        Ok(std::thread::spawn(move || {
            let mut lines = Vec::new();
            for l in BufReader::new(out).lines().map_while(Result::ok) {
                *last.lock().unwrap() = std::time::Instant::now();
                lines.push(l);
            }
            done.store(true, Ordering::SeqCst);
            let st = c.wait().ok().and_then(|s| s.code());
            (lines, st, hung.load(Ordering::SeqCst))
        }))
    };
    let mut pending = Vec::new();
    for w in 0..nw {
        pending.push((w, start(w, None)?));
    }
    let mut all = Vec::new();
    let mut notes = Vec::new();
    let mut restarts = 0;
    while let Some((w, h)) = pending.pop() {
        let (lines, st, hung) = h.join().map_err(|_| "collector thread panicked".to_string())?;
        let has_summary = lines.iter().any(|l| l.starts_with("{\"summary\""));
        let last_at = lines.iter().rev().find_map(|l| l.strip_prefix("{\"at\":").and_then(|x| x.trim_end_matches('}').parse::<u64>().ok()));
        // was the worker inside native code of the program under test (C driver, print runtime)
        // when it ended? then the crash is a finding about that program, not about the compiler
        let mut native: Option<String> = None;
        for l in &lines {
            if let Some(c) = l.strip_prefix("{\"native\":") {
                native = Some(c.strip_suffix('}').unwrap_or(c).to_string());
            } else if l.starts_with("{\"native_done\"") {
                native = None;
            }
        }
        all.extend(lines.into_iter().filter(|l| !l.starts_with("{\"at\":") && !l.starts_with("{\"native")));
        match st {
            Some(0) | Some(2) if has_summary => {}
            None | Some(_) if !has_summary && st != Some(2) => {
                // killed by a signal or aborted: the code under test took the process down (or did
                // not come back and was killed by the watchdog)
                let Some(at) = last_at else { return Err(format!("worker {w} ended abnormally before it started (status {st:?})")) };
                restarts += 1;
                if restarts > 20_000 {
                    return Err("too many worker crashes".into());
                }
                if let Some(ctx) = native.filter(|_| !hung) {
                    all.push(format!("{{\"found\":{ctx}}}"));
                    notes.push(format!("unit of work {at}: the program under test crashed the worker process inside its C driver or runtime (status {st:?}); reported as a finding"));
                } else if hung {
                    notes.push(format!("unit of work {at}: no progress for {} s (the compiler under test did not terminate); worker killed, run skipped", limit.as_secs()));
                } else {
                    notes.push(format!("unit of work {at}: the compiler under test crashed the worker process (status {st:?}, e.g. stack overflow); skipped"));
                }
                pending.push((w, start(w, Some(at + nw))?));
            }
            other => return Err(format!("worker {w} ended abnormally (status {other:?})")),
        }
    }
    Ok((all, notes))
}

#[derive(Deserialize, Clone, Debug, Default)]
pub struct KnownFile {
    #[serde(default)]
    pub findings: Vec<Known>,
    #[serde(default)]
    pub fixed: Vec<serde_json::Value>,
}

#[derive(Deserialize, Clone, Debug)]
pub struct Known {
    pub property: String,
    pub what: String,
    pub class: String,
    #[serde(default)]
    pub backend: Option<String>,
    /// all of these substrings must occur in the violation message
    #[serde(default)]
    pub msg_contains: Vec<String>,
    /// all of these substrings must occur in the serialised (minimised) scenario / source
    #[serde(default)]
    pub input_contains: Vec<String>,
}

pub fn load_known() -> KnownFile {
    match std::fs::read_to_string(format!("{}/known_findings.json", verif_dir())) {
        Ok(s) => serde_json::from_str(&s).unwrap_or_default(),
        Err(_) => KnownFile::default(),
    }
}

pub fn known_match<'a>(k: &'a KnownFile, prop: &str, class: &str, backend: &str, msg: &str, input: &str) -> Option<&'a Known> {
    k.findings.iter().find(|f| {
        f.property == prop
            && f.class == class
            && f.backend.as_deref().map(|b| b == backend).unwrap_or(true)
            && f.msg_contains.iter().all(|m| msg.contains(m))
            && f.input_contains.iter().all(|m| input.contains(m))
    })
}

pub fn write_replay(rp: &Replay) -> String {
    let dir = format!("{}/replays/{}", verif_dir(), rp.property);
    let _ = std::fs::create_dir_all(&dir);
    let body = serde_json::to_string_pretty(rp).unwrap();
    let h = crate::prng::hash_str(&body);
    let path = format!("{dir}/{:?}-{}-{:016x}.json", rp.class, rp.backend.name(), h);
    std::fs::write(&path, body).expect("write replay");
    path
}

/// re-execute a replay file; returns the findings of the recorded property/class
pub fn replay_file(path: &str) -> Result<(Replay, Vec<Finding>), String> {
    let s = std::fs::read_to_string(path).map_err(|e| format!("{path}: {e}"))?;
    let rp: Replay = from_json(&s).map_err(|e| format!("{path}: {e}"))?;
    let fs = replay_findings(&rp);
    Ok((rp, fs))
}

pub fn replay_findings(rp: &Replay) -> Vec<Finding> {
    let backends = if rp.class == Class::Disagree { vec![Backend::Rv, Backend::X86, Backend::A64] } else { vec![rp.backend] };
    let rcfg = RunCfg { backends, check_heap: rp.check_heap, hostile: rp.plan.is_hostile(), record_snaps: 0, ref_budget: 400_000 };
    let mut st = Stats::default();
    let mut rng = Rng::keyed(rp.verif_seed, rp.run, "plans");
    let keys = Rng::keyed(rp.verif_seed, rp.run, "hashkeys").next();
    let mut r = workloads::run_fixed(&rp.scenario, &rcfg, &mut rng, keys, &mut st, &rp.plan);
    if rp.class == Class::Disagree {
        workloads::three_way(&mut r, &rp.scenario);
    }
    r.findings.into_iter().filter(|f| f.prop == rp.property && f.class == rp.class && f.backend == rp.backend).collect()
}

pub fn check(id: &str, tier: &str) -> i32 {
    let t0 = std::time::Instant::now();
    let Some(cfg) = check_cfg(id, tier) else {
        eprintln!("unknown property {id}");
        return 2;
    };
    let seed: u64 = std::env::var("VERIF_SEED").ok().and_then(|s| s.parse().ok()).unwrap_or(1);
    let nw: u64 = std::env::var("VERIF_WORKERS").ok().and_then(|s| s.parse().ok()).unwrap_or_else(|| std::thread::available_parallelism().map(|n| n.get() as u64).unwrap_or(8));
    println!("VERIF_SEED={seed} property={id} tier={tier} runs={} workers={nw}", cfg.runs);
    let exe = std::env::current_exe().expect("exe");
    let mut total = Stats::default();
    let mut hashes: BTreeSet<u64> = BTreeSet::new();
    let mut samples = Vec::new();
    let mut found: Vec<FoundLine> = Vec::new();
    let mut harness: Option<String> = None;
    let mk = |w: u64| -> Command {
        let mut c = Command::new(&exe);
        c.args(["worker", id, tier, &seed.to_string(), &w.to_string(), &nw.to_string()]);
        c
    };
    match supervise(nw, &mk) {
        Err(e) => harness = Some(e),
        Ok((lines, notes)) => {
            for n in notes {
                total.note(&n);
            }
            for l in lines {
                // (typed envelopes: going through serde_json::Value would hit the nesting limit again)
                #[derive(Deserialize)]
                struct Line {
                    found: Option<FoundLine>,
                    summary: Option<WorkerSummary>,
                }
                let v: Line = match from_json(&l) {
                    Ok(v) => v,
                    Err(e) => {
                        if harness.is_none() {
                            harness = Some(format!("a worker line could not be read: {e}: {}", l.chars().take(120).collect::<String>()));
                        }
                        continue;
                    }
                };
                if let Some(fl) = v.found {
                    found.push(fl);
                } else if let Some(ws) = v.summary {
                    {
                        total.merge(&ws.stats);
                        hashes.extend(ws.hashes.iter().copied());
                        if samples.len() < 3 {
                            samples.extend(ws.samples.into_iter().take(1));
                        }
                        if ws.harness.is_some() && harness.is_none() {
                            harness = ws.harness;
                        }
                    }
                }
            }
        }
    }
    if let Some(h) = &harness {
        println!("HARNESS-ERROR: {h}");
        return 2;
    }
    // group findings: one representative (lowest run index) per (class, backend)
    found.sort_by_key(|f| f.run);
    let mut groups: BTreeMap<(Class, Backend), Vec<FoundLine>> = BTreeMap::new();
    for f in found {
        groups.entry((f.finding.class, f.finding.backend)).or_default().push(f);
    }
    let known = load_known();
    let mut violations = 0;
    let mut known_lines = Vec::new();
    let mut viol_lines = Vec::new();
    for ((class, backend), fls) in &groups {
        // try the first few candidates; a finding counts as known only if its minimised form matches
        let mut reported_known: BTreeSet<String> = BTreeSet::new();
        let mut unknown_done = false;
        for fl in fls.iter().take(6) {
            let mut rp = Replay {
                engine: "M".into(),
                property: id.to_string(),
                class: *class,
                backend: *backend,
                message: fl.finding.msg.clone(),
                verif_seed: seed,
                run: fl.run,
                config: fl.finding.config.clone(),
                plan: fl.finding.plan.clone(),
                scenario: fl.scenario.clone(),
                minimised: false,
                check_heap: cfg.check_heap,
            };
            // minimisation recompiles candidate programs: done in a child process, so that a
            // compiler that overflows its stack on a candidate costs the minimisation, not the check
            let tmp = format!("{}/work/mmin-{}-{}.json", verif_dir(), std::process::id(), fl.run);
            let _ = std::fs::create_dir_all(format!("{}/work", verif_dir()));
            if std::fs::write(&tmp, serde_json::to_string(&rp).unwrap()).is_ok() {
                let st = Command::new(&exe).args(["mmin", &tmp]).stdout(Stdio::null()).stderr(Stdio::null()).status();
                if st.ok().and_then(|s| s.code()) == Some(0) {
                    if let Some(m) = std::fs::read_to_string(&tmp).ok().and_then(|t| from_json::<Replay>(&t).ok()) {
                        rp = m;
                    }
                } else {
                    total.note("minimisation of a finding crashed the compiler under test (finding reported as found)");
                }
                let _ = std::fs::remove_file(&tmp);
            }
            let input = serde_json::to_string(&rp.scenario).unwrap();
            if let Some(k) = known_match(&known, id, &format!("{class:?}"), backend.name(), &rp.message, &input) {
                if reported_known.insert(k.what.clone()) {
                    known_lines.push(format!("KNOWN-FINDING: property={id} {}", k.what));
                }
                continue;
            }
            if unknown_done {
                continue;
            }
            let path = write_replay(&rp);
            // the replay must reproduce in a fresh process
            let st = Command::new(&exe).args(["replay", &path, "--expect"]).stdout(Stdio::null()).stderr(Stdio::null()).status();
            match st.ok().and_then(|s| s.code()) {
                Some(1) => {}
                other => {
                    println!("HARNESS-ERROR: replay of {path} did not reproduce (status {other:?})");
                    return 2;
                }
            }
            violations += 1;
            viol_lines.push(format!("VIOLATION property={id} replay={path}"));
            println!("  class={class:?} backend={} run={} config={} occurrences={}", backend.name(), rp.run, rp.config, fls.len());
            println!("  {}", rp.message);
            unknown_done = true;
        }
    }
    let wall = t0.elapsed().as_secs_f64();
    write_evidence(id, tier, seed, &cfg, &total, hashes.len() as u64, &samples, wall, violations, nw, &known_lines);
    for l in &known_lines {
        println!("{l}");
    }
    for l in &viol_lines {
        println!("{l}");
    }
    println!(
        "property={id} runs={} executions={} instructions={} boundaries={} discarded={:?} other-property findings={:?} wall={:.1}s",
        total.runs, total.executions, total.instructions, total.markers, total.discarded, total.other_findings, wall
    );
    if !total.notes.is_empty() {
        for (k, v) in &total.notes {
            if !k.starts_with("programs handed over") {
                println!("NOTE: {k} (x{v})");
            }
        }
    }
    if violations > 0 { 1 } else { 0 }
}

#[allow(clippy::too_many_arguments)]
pub fn write_evidence(id: &str, tier: &str, seed: u64, cfg: &CheckCfg, st: &Stats, distinct: u64, samples: &[serde_json::Value], wall: f64, violations: usize, workers: u64, known: &[String]) {
    let runs_per_hour = if wall > 0.0 { (st.runs as f64 / wall * 3600.0) as u64 } else { 0 };
    let mut samples: Vec<serde_json::Value> = samples.to_vec();
    if samples.is_empty() {
        samples.push(serde_json::json!({"note": "no scenario of the sample size window was generated in this run"}));
    }
    let ev = serde_json::json!({
        "property_id": id,
        "tier": tier,
        "seed": seed,
        "level": "exploration",
        "coverage": {
            "evaluations": st.executions.max(1),
            "distinct_nontrivial": distinct,
            "rule": "evaluations = executions of emitted code on a simulated target machine (one scenario runs once per backend under a benign and, where enabled, a hostile environment plan); a scenario is non-trivial if the AxCut reference machine runs it to Exit in at least 6 steps; distinct = distinct 64-bit hashes of (workload kind, program, arguments) among non-trivial scenarios (capped at 300k per worker)",
            "samples": samples,
            "simulated_runs": st.runs,
            "runs_per_hour": runs_per_hour,
            "simulated_time": {"instructions_executed": st.instructions, "statement_boundaries_passed": st.markers, "reference_machine_steps": st.ref_steps, "note": "the system has no clock; simulated time is counted in executed target instructions and statement boundaries"},
            "heap_invariant_evaluations": st.heap_checks,
            "external_calls_simulated": st.calls,
            "bump_allocations_seen_at_boundaries": st.bumps,
            "fault_kinds_injected": st.faults,
            "executions_per_backend": st.per_backend_exec,
            "rare_path_probes_hit": st.probes,
            "max_environment_length_histogram": st.max_live_hist,
            "statements_generated": st.stmts,
            "discarded_runs_by_reason": st.discarded,
            "programs_handed_over_with_noisy_display_names": st.notes.get("programs handed over with noisy display names").copied().unwrap_or(0),
            "pipeline_failure_notes": st.notes.iter().filter(|(k, _)| !k.starts_with("programs handed over")).collect::<BTreeMap<_, _>>(),
            "findings_by_property_class_backend": st.classes,
            "other_property_findings_not_judged_here": st.other_findings,
            "known_findings_reported": known,
            "workloads": cfg.workloads,
            "workers": workers,
            "event_log_hash": format!("{:016x}", st.log_hash),
            "components": {
                "real": ["axcut2backend (feature verif)", "axcut2x86_64", "axcut2aarch64", "axcut2rv64", "printer (text rendering)", "emitted assembly text"],
                "stub": ["CPU: text-level emulators written for this task", "print runtime: records the call", "C driver: entry state set up per ABI by the simulator"],
                "reference_model": "AxCut abstract machine written for this task"
            }
        },
        "assumptions": [
            "emulator fidelity: x86-64 emulator cross-checked natively where possible; AArch64 and RV64 emulators have no hardware cross-check (no toolchain/qemu in the sandbox)",
            "position->temporary rule re-implemented from the backends' documentation (utils.rs)",
            "exploration: a clean batch is evidence, not proof"
        ],
        "wall_s": wall,
        "violations": violations
    });
    let _ = std::fs::create_dir_all(format!("{}/evidence", verif_dir()));
    std::fs::write(format!("{}/evidence/{id}.json", verif_dir()), serde_json::to_string_pretty(&ev).unwrap()).expect("write evidence");
}
