//! Pieces shared by the three target-machine emulators: tagged values (definedness), simulated
//! memory with confinement checks, environment/fault plan, violation classes, event log.

use serde::{Deserialize, Serialize};

use crate::ast::Chi;

/// A 64-bit machine word plus its definedness: `u == 0` means defined, otherwise `u` is the index
/// (plus one) of the origin of the undefined value in `Origins`.
#[derive(Clone, Copy, Debug, PartialEq, Eq)]
pub struct V {
    pub v: u64,
    pub u: u32,
}

impl V {
    pub const fn d(v: u64) -> V {
        V { v, u: 0 }
    }
    pub fn is_def(&self) -> bool {
        self.u == 0
    }
    /// result of an arithmetic combination: undefined if any operand is
    pub fn combine(v: u64, a: V, b: V) -> V {
        V { v, u: if a.u != 0 { a.u } else { b.u } }
    }
}

#[derive(Clone, Copy, Debug, PartialEq, Eq, Serialize, Deserialize, PartialOrd, Ord)]
pub enum OriginKind {
    /// E4: caller-saved / scratch register content at entry
    EntryScratch,
    /// E4: callee-saved register content at entry (opaque caller value that must come back)
    EntryCalleeSaved,
    /// E6: stack memory content at entry
    EntryStack,
    /// E1: register destroyed by the external callee
    CallReg,
    /// E1: link register overwritten by the call instruction itself (AArch64 BL)
    CallLink,
    /// E2: flags destroyed by the external callee
    CallFlags,
    /// E3: stack memory below SP overwritten by the external callee
    CallStack,
    /// result flags of an instruction that leaves them architecturally undefined
    ArchUndefFlags,
}

#[derive(Clone, Debug)]
pub struct Origin {
    pub kind: OriginKind,
    pub what: String,
}

#[derive(Clone, Copy, Debug, PartialEq, Eq, Hash, Serialize, Deserialize, PartialOrd, Ord)]
pub enum Class {
    /// print history or result differs from the reference machine
    History,
    /// generated code does not terminate within the step budget although the reference does
    Progress,
    /// value that stems from entry garbage (E4/E6) was consumed
    UndefEntry,
    /// value destroyed by an external call (E1/E2/E3) was consumed
    UndefCall,
    /// memory access outside heap / live stack
    Confinement,
    /// computed jump does not land on an instruction start / code address misuse
    BadJump,
    /// emitted text cannot be encoded / loaded (immediate out of range for the printed form ...)
    Text,
    /// heap partition / exact count / list shape invariant violated at a statement boundary
    Heap,
    /// bump allocation although free blocks exist, or frontier above peak live + slack
    Footprint,
    /// substitution did not behave as simultaneous assignment
    Subst,
    /// stack alignment at call / SP access
    Align,
    /// callee-saved register, SP or return address not restored; store into caller frame
    Abi,
    /// arithmetic fault (division trap) in generated code although reference is defined
    Trap,
    /// three-way disagreement between backends
    Disagree,
    /// simulated heap capacity exceeded (E7): never a verdict, the run is discarded
    Capacity,
}

#[derive(Clone, Debug)]
pub struct Viol {
    pub class: Class,
    pub msg: String,
}

impl Viol {
    pub fn new(class: Class, msg: impl Into<String>) -> Viol {
        Viol { class, msg: msg.into() }
    }
}

pub type Res<T> = Result<T, Viol>;

/// Environment / fault plan of one execution. Everything the real deployment leaves open is
/// decided here; garbage values are a pure function of `garbage_seed` and the location, so one
/// plan is one exactly repeatable execution.
#[derive(Clone, Debug, Serialize, Deserialize, PartialEq)]
pub struct EnvPlan {
    /// E1: destroy caller-saved registers at external calls
    pub e1_regs: bool,
    /// E2: destroy flags at external calls
    pub e2_flags: bool,
    /// E3: overwrite this many 8-byte words below SP at external calls (0 = off)
    pub e3_depth: usize,
    /// E4: registers hold garbage at entry
    pub e4_entry: bool,
    /// E6: stack memory undefined at entry
    pub e6_stack: bool,
    /// E5: address layout
    pub heap_base: u64,
    pub stack_top: u64,
    pub code_base: u64,
    /// E7: heap capacity in 64-byte blocks
    pub heap_blocks: usize,
    pub garbage_seed: u64,
    /// minimisation: restrict E1/E2/E3 to these call indices (None = all calls)
    pub only_calls: Option<Vec<usize>>,
    /// minimisation: restrict E1 to these register numbers (None = all caller-saved)
    pub only_regs: Option<Vec<u8>>,
}

impl EnvPlan {
    pub fn benign() -> EnvPlan {
        EnvPlan {
            e1_regs: false,
            e2_flags: false,
            e3_depth: 0,
            e4_entry: false,
            e6_stack: false,
            heap_base: 0x1000_0000,
            stack_top: 0x7fff_0000_0000,
            code_base: 0x40_0000,
            heap_blocks: 1 << 14,
            garbage_seed: 0,
            only_calls: None,
            only_regs: None,
        }
    }
    pub fn is_hostile(&self) -> bool {
        self.e1_regs || self.e2_flags || self.e3_depth > 0 || self.e4_entry || self.e6_stack
    }
    pub fn call_enabled(&self, idx: usize) -> bool {
        match &self.only_calls {
            None => true,
            Some(v) => v.contains(&idx),
        }
    }
    pub fn reg_enabled(&self, r: u8) -> bool {
        match &self.only_regs {
            None => true,
            Some(v) => v.contains(&r),
        }
    }
    pub fn garbage(&self, a: u64, b: u64) -> u64 {
        let mut z = self.garbage_seed ^ a.wrapping_mul(0x9e3779b97f4a7c15) ^ b.rotate_left(32);
        z = (z ^ (z >> 30)).wrapping_mul(0xbf58476d1ce4e5b9);
        z = (z ^ (z >> 27)).wrapping_mul(0x94d049bb133111eb);
        z ^ (z >> 31)
    }
}

#[derive(Clone, Debug, Default, Serialize, Deserialize)]
pub struct FaultCounts {
    pub e1_regs_destroyed: u64,
    pub e1_link_overwritten: u64,
    pub e2_flags_destroyed: u64,
    pub e3_stack_words: u64,
    pub e4_entry_regs: u64,
    pub e6_stack_undefined: u64,
    pub calls: u64,
}

impl FaultCounts {
    pub fn add(&mut self, o: &FaultCounts) {
        self.e1_regs_destroyed += o.e1_regs_destroyed;
        self.e1_link_overwritten += o.e1_link_overwritten;
        self.e2_flags_destroyed += o.e2_flags_destroyed;
        self.e3_stack_words += o.e3_stack_words;
        self.e4_entry_regs += o.e4_entry_regs;
        self.e6_stack_undefined += o.e6_stack_undefined;
        self.calls += o.calls;
    }
}

pub const BLOCK: u64 = 64;
/// words of simulated stack below the entry SP
pub const STACK_WORDS: usize = 1024;
/// words of caller frame above the entry SP that exist in the simulated address space
pub const CALLER_WORDS: usize = 16;

pub struct Mem {
    pub heap_base: u64,
    /// lazily grown; words beyond `heap.len()` and below `heap_cap_words` read as defined zero
    pub heap: Vec<V>,
    pub heap_cap_words: usize,
    /// highest heap address written so far, exclusive (heap_base if nothing was written)
    pub heap_hwm: u64,
    pub stack_lo: u64,
    pub stack: Vec<V>,
    /// entry value of the stack pointer
    pub entry_sp: u64,
    /// lowest legal address for stack accesses relative to the current SP (red zone), bytes
    pub red_zone: u64,
    pub loads: u64,
    pub stores: u64,
}

impl Mem {
    pub fn new(plan: &EnvPlan, entry_sp: u64, red_zone: u64, origin_stack: u32) -> Mem {
        let stack_lo = entry_sp - 8 * STACK_WORDS as u64;
        let mut stack = vec![V::d(0); STACK_WORDS + CALLER_WORDS];
        for (i, w) in stack.iter_mut().enumerate() {
            if plan.e6_stack && i < STACK_WORDS {
                *w = V { v: plan.garbage(0x57ac, i as u64), u: origin_stack };
            }
        }
        Mem {
            heap_base: plan.heap_base,
            heap: Vec::new(),
            heap_cap_words: plan.heap_blocks * 8,
            heap_hwm: plan.heap_base,
            stack_lo,
            stack,
            entry_sp,
            red_zone,
            loads: 0,
            stores: 0,
        }
    }
    pub fn heap_end(&self) -> u64 {
        self.heap_base + 8 * self.heap_cap_words as u64
    }
    fn heap_get(&self, a: u64) -> V {
        let i = ((a - self.heap_base) / 8) as usize;
        if i < self.heap.len() { self.heap[i] } else { V::d(0) }
    }
    fn heap_set(&mut self, a: u64, val: V) {
        let i = ((a - self.heap_base) / 8) as usize;
        if i >= self.heap.len() {
            self.heap.resize((i + 1).next_multiple_of(64), V::d(0));
        }
        self.heap[i] = val;
    }
    pub fn in_heap(&self, a: u64) -> bool {
        a >= self.heap_base && a < self.heap_end()
    }
    fn stack_hi(&self) -> u64 {
        self.stack_lo + 8 * self.stack.len() as u64
    }
    pub fn in_stack(&self, a: u64) -> bool {
        a >= self.stack_lo && a < self.stack_hi()
    }
    /// Load with confinement check. `sp` is the current stack pointer.
    pub fn load(&mut self, a: u64, sp: u64, what: &str) -> Res<V> {
        self.loads += 1;
        if a % 8 != 0 {
            return Err(Viol::new(Class::Confinement, format!("{what}: unaligned load at {a:#x}")));
        }
        if self.in_heap(a) {
            return Ok(self.heap_get(a));
        }
        if self.in_stack(a) {
            if a + self.red_zone < sp {
                return Err(Viol::new(
                    Class::Confinement,
                    format!("{what}: load below the stack pointer at sp{:+}", a as i64 - sp as i64),
                ));
            }
            return Ok(self.stack[((a - self.stack_lo) / 8) as usize]);
        }
        if a >= self.heap_end() && a < self.heap_end() + 64 * 64 {
            return Err(Viol::new(Class::Capacity, "simulated heap capacity exceeded"));
        }
        Err(Viol::new(Class::Confinement, format!("{what}: load outside heap and stack at {a:#x}")))
    }
    /// Store with confinement check; stores at or above the entry SP (caller's frame) are illegal.
    pub fn store(&mut self, a: u64, val: V, sp: u64, what: &str) -> Res<()> {
        self.stores += 1;
        if a % 8 != 0 {
            return Err(Viol::new(Class::Confinement, format!("{what}: unaligned store at {a:#x}")));
        }
        if self.in_heap(a) {
            self.heap_set(a, val);
            if a + 8 > self.heap_hwm {
                self.heap_hwm = a + 8;
            }
            return Ok(());
        }
        if self.in_stack(a) {
            if a >= self.entry_sp {
                return Err(Viol::new(
                    Class::Abi,
                    format!("{what}: store into the caller's frame at entry_sp{:+}", a as i64 - self.entry_sp as i64),
                ));
            }
            if a + self.red_zone < sp {
                return Err(Viol::new(
                    Class::Confinement,
                    format!("{what}: store below the stack pointer at sp{:+}", a as i64 - sp as i64),
                ));
            }
            self.stack[((a - self.stack_lo) / 8) as usize] = val;
            return Ok(());
        }
        if a >= self.heap_end() && a < self.heap_end() + 64 * 64 {
            return Err(Viol::new(Class::Capacity, "simulated heap capacity exceeded"));
        }
        Err(Viol::new(Class::Confinement, format!("{what}: store outside heap and stack at {a:#x}")))
    }
    /// raw stack write used by the simulator itself (fault injection, entry setup)
    pub fn poke_stack(&mut self, a: u64, val: V) -> bool {
        if self.in_stack(a) && a % 8 == 0 {
            self.stack[((a - self.stack_lo) / 8) as usize] = val;
            true
        } else {
            false
        }
    }
    pub fn peek(&self, a: u64) -> Option<V> {
        if a % 8 != 0 {
            return None;
        }
        if self.in_heap(a) {
            return Some(self.heap_get(a));
        }
        if self.in_stack(a) {
            return Some(self.stack[((a - self.stack_lo) / 8) as usize]);
        }
        None
    }
}

/// statement-boundary marker parsed from an `@env` comment
#[derive(Clone, Debug, PartialEq)]
pub struct Marker {
    pub env: Vec<(usize, Chi)>,
}

pub fn parse_marker(text: &str) -> Option<Marker> {
    let t = text.trim();
    let rest = t.strip_prefix("@env ")?;
    let mut it = rest.split_whitespace();
    let n: usize = it.next()?.parse().ok()?;
    let mut env = Vec::with_capacity(n);
    for tok in it {
        let (i, c) = tok.split_once(':')?;
        let chi = match c {
            "p" => Chi::P,
            "c" => Chi::C,
            "e" => Chi::E,
            _ => return None,
        };
        env.push((i.parse().ok()?, chi));
    }
    if env.len() != n {
        return None;
    }
    Some(Marker { env })
}

#[derive(Clone, Debug, PartialEq, Eq, Serialize, Deserialize)]
pub struct CallEv {
    pub newline: bool,
    pub arg: i64,
}

/// rolling hash of the event log (markers, calls, faults, verdict) used by the determinism proof
#[derive(Clone, Debug)]
pub struct LogHash(pub u64);

impl LogHash {
    pub fn new() -> LogHash {
        LogHash(0x243f6a8885a308d3)
    }
    pub fn add(&mut self, x: u64) {
        let mut z = self.0 ^ x.wrapping_mul(0x9e3779b97f4a7c15);
        z = (z ^ (z >> 29)).wrapping_mul(0xbf58476d1ce4e5b9);
        self.0 = z ^ (z >> 32);
    }
}

/// What an emulator run produces.
#[derive(Clone, Debug, Default)]
pub struct ExecOutcome {
    pub calls: Vec<CallEv>,
    pub result: Option<i64>,
    /// fatal violation: execution could not continue
    pub viol: Option<Viol>,
    /// violations after which execution continued (monitors, alignment, ABI at return)
    pub soft: Vec<Viol>,
    pub steps: u64,
    pub markers: u64,
    pub faults: FaultCounts,
    pub log_hash: u64,
    pub probes: std::collections::BTreeMap<String, u64>,
    pub peak_reach: usize,
    pub frontier_blocks: usize,
    pub heap_checks: u64,
    pub bumps: u64,
    pub loads: u64,
    pub stores: u64,
}

pub enum LoadErr {
    /// the text cannot be the input of any assembler for the machine being simulated
    Text(Viol),
    /// the loader does not know this construct: harness must be extended (exit 2)
    Harness(String),
}

#[derive(Clone, Debug)]
pub struct Snap {
    pub env: Vec<(usize, Chi)>,
    /// (first temporary, second temporary) per position
    pub temps: Vec<(V, V)>,
    pub shape: Option<crate::monitor::HeapShape>,
    pub heap_reg: V,
    pub free_reg: V,
    /// copy of all heap words below the frontier (for "changes nothing else")
    pub heap_words: Vec<V>,
}

#[derive(Clone, Debug)]
pub struct ExecOpts {
    pub step_budget: u64,
    pub check_heap: bool,
    pub record_snaps: usize,
    /// engine X: the external print call is forwarded to the real runtime (newline, value)
    pub print_hook: Option<fn(bool, i64)>,
}

pub fn probe_key(c: &str) -> String {
    // backend comments that start with '#' label rare paths; strip variable names
    let t = c.trim();
    if t.starts_with("#erase ") {
        return "#erase <var>".into();
    }
    if t.starts_with("#share ") {
        return "#share <var>".into();
    }
    t.to_string()
}

pub fn origin_class(k: OriginKind) -> Class {
    match k {
        OriginKind::EntryScratch | OriginKind::EntryCalleeSaved | OriginKind::EntryStack => Class::UndefEntry,
        OriginKind::CallReg | OriginKind::CallLink | OriginKind::CallFlags | OriginKind::CallStack => Class::UndefCall,
        OriginKind::ArchUndefFlags => Class::UndefEntry,
    }
}

/// State shared by the three emulators: memory, origins of undefinedness, monitors, logs.
pub struct Core<'a> {
    pub plan: &'a EnvPlan,
    pub opts: &'a ExecOpts,
    pub mem: Mem,
    pub origins: Vec<Origin>,
    pub out: ExecOutcome,
    pub snaps: Vec<Snap>,
    pub fp: crate::monitor::Footprint,
    pub log: LogHash,
    pub probe_counts: Vec<u64>,
    pub monitor_dead: bool,
    pub call_idx: usize,
    pub last_checked: u64,
    pub capacity_hit: bool,
}

impl<'a> Core<'a> {
    pub fn new(plan: &'a EnvPlan, opts: &'a ExecOpts, entry_sp: u64, red_zone: u64, n_probes: usize, has_stack: bool) -> Core<'a> {
        let mut origins = Vec::new();
        let mut out = ExecOutcome::default();
        let mut o = 0;
        if plan.e6_stack && has_stack {
            origins.push(Origin { kind: OriginKind::EntryStack, what: "stack memory at entry".into() });
            o = origins.len() as u32;
            out.faults.e6_stack_undefined += STACK_WORDS as u64;
        }
        let mut mem = Mem::new(plan, entry_sp, red_zone, o);
        if !has_stack {
            mem.stack.clear();
        }
        Core {
            plan,
            opts,
            mem,
            origins,
            out,
            snaps: Vec::new(),
            fp: Default::default(),
            log: LogHash::new(),
            probe_counts: vec![0; n_probes],
            monitor_dead: false,
            call_idx: 0,
            last_checked: 0,
            capacity_hit: false,
        }
    }

    /// record a violation after which execution continues (at most a few per class)
    pub fn soft(&mut self, v: Viol) {
        if self.out.soft.iter().filter(|x| x.class == v.class).count() < 2 {
            self.out.soft.push(v);
        }
    }

    pub fn origin(&mut self, kind: OriginKind, what: String) -> u32 {
        self.origins.push(Origin { kind, what });
        self.origins.len() as u32
    }

    pub fn need(&self, v: V, what: &str, line: usize) -> Res<u64> {
        if v.u == 0 {
            Ok(v.v)
        } else {
            let o = &self.origins[(v.u - 1) as usize];
            Err(Viol::new(origin_class(o.kind), format!("{what} consumes an undefined value ({:?}: {}) at line {line}", o.kind, o.what)))
        }
    }

    pub fn undef_viol(&self, u: u32, what: &str, line: usize) -> Viol {
        let o = &self.origins[(u - 1) as usize];
        Viol::new(origin_class(o.kind), format!("{what} ({:?}: {}) at line {line}", o.kind, o.what))
    }

    /// Statement-boundary processing: heap invariant, footprint, snapshots.
    /// `temp(t)` reads temporary number `t` (2*position + {0,1}).
    pub fn marker(&mut self, mk: &Marker, pc: usize, heap_reg: V, free_reg: V, temps: &[(V, V)]) {
        self.out.markers += 1;
        self.log.add(0x4d41 ^ (mk.env.len() as u64) << 16 ^ (pc as u64) << 32);
        let want_snap = self.snaps.len() < self.opts.record_snaps;
        let mut shape = None;
        // large heaps: evaluate the O(blocks) invariant at a sampled subset of the boundaries
        let blocks = (self.mem.heap_hwm - self.mem.heap_base) / BLOCK;
        let stride = 1 + blocks / 384;
        let due = self.out.markers % stride == 0 || want_snap;
        if self.opts.check_heap && due {
            let consecutive = self.last_checked + 1 == self.out.markers;
            self.last_checked = self.out.markers;
            let roots: Vec<(usize, V)> = mk
                .env
                .iter()
                .enumerate()
                .filter(|(_, (_, chi))| *chi != Chi::E)
                .map(|(pos, _)| (pos, temps[pos].0))
                .collect();
            self.out.heap_checks += 1;
            let mut fp_shape = None;
            if !self.monitor_dead {
                match crate::monitor::check_heap(&self.mem, heap_reg, free_reg, &roots, want_snap) {
                    Ok(sh) => {
                        self.log.add(sh.frontier ^ (sh.r as u64) << 48);
                        fp_shape = Some(sh.clone());
                        shape = Some(sh);
                    }
                    Err(v) => {
                        if v.class != Class::Capacity {
                            let m = self.out.markers;
                            self.soft(Viol::new(v.class, format!("{} (statement boundary #{})", v.msg, m)));
                        } else {
                            self.capacity_hit = true;
                        }
                        self.monitor_dead = true;
                    }
                }
            }
            if fp_shape.is_none() && !self.capacity_hit {
                // the strict invariant is already broken: the footprint monitor keeps running on a
                // best-effort view of the heap
                fp_shape = crate::monitor::loose_shape(&self.mem, heap_reg, free_reg, &roots);
            }
            if let Some(sh) = fp_shape {
                if let Err(v) = self.fp.at_marker(&self.mem, &sh, consecutive, stride) {
                    let m = self.out.markers;
                    self.soft(Viol::new(v.class, format!("{} (statement boundary #{})", v.msg, m)));
                }
            }
        }
        if want_snap {
            let heap_words = match &shape {
                Some(sh) => {
                    let n = ((sh.frontier - self.mem.heap_base) / 8) as usize;
                    (0..n).map(|i| self.mem.peek(self.mem.heap_base + 8 * i as u64).unwrap_or(V::d(0))).collect()
                }
                None => Vec::new(),
            };
            self.snaps.push(Snap { env: mk.env.clone(), temps: temps.to_vec(), shape, heap_reg, free_reg, heap_words });
        }
    }

    pub fn finish(mut self, r: Res<i64>, probe_names: &[String]) -> (ExecOutcome, Vec<Snap>) {
        match r {
            Ok(v) => {
                self.out.result = Some(v);
                self.log.add(0x0e7d ^ v as u64);
            }
            Err(v) => {
                self.log.add(0xbad ^ crate::prng::hash_str(&v.msg));
                self.out.viol = Some(v);
            }
        }
        for v in &self.out.soft {
            self.log.add(0x50f7 ^ crate::prng::hash_str(&v.msg));
        }
        for (i, c) in self.probe_counts.iter().enumerate() {
            if *c > 0 {
                self.out.probes.insert(probe_names[i].clone(), *c);
            }
        }
        self.out.peak_reach = self.fp.peak_r;
        self.out.frontier_blocks = self.fp.max_frontier_blocks;
        self.out.bumps = self.fp.bumps_seen;
        self.out.loads = self.mem.loads;
        self.out.stores = self.mem.stores;
        self.out.log_hash = self.log.0;
        (self.out, self.snaps)
    }
}
