//! Text-level AArch64 emulator for the text emitted by `axcut2aarch64`, written from the Arm ARM
//! semantics of the instructions the backend can print and from AAPCS64.

use crate::mach::*;
use std::collections::BTreeMap;

const SP: u8 = 31;
const XZR: u8 = 32;
const LR: u8 = 30;
const RET_SENTINEL: u64 = 0x0000_7e7e_0000_2000;

#[derive(Clone, Copy, Debug, PartialEq, Eq)]
pub enum Cc {
    Eq,
    Ne,
    Lt,
    Le,
    Gt,
    Ge,
    Mi,
    Pl,
    Hi,
    Ls,
    Hs,
    Lo,
}

/// further data-processing instructions (not emitted by the pinned back end; accepted so that a
/// change that starts using them is judged by its behaviour)
#[derive(Clone, Copy, Debug, PartialEq)]
pub enum Alu {
    And,
    Orr,
    Eor,
    Lsl,
    Lsr,
    Asr,
    Udiv,
}

fn alu(op: Alu, a: u64, b: u64) -> u64 {
    match op {
        Alu::And => a & b,
        Alu::Orr => a | b,
        Alu::Eor => a ^ b,
        Alu::Lsl => a << (b & 63),
        Alu::Lsr => a >> (b & 63),
        Alu::Asr => ((a as i64) >> (b & 63)) as u64,
        Alu::Udiv => if b == 0 { 0 } else { a / b },
    }
}

#[derive(Clone, Debug, PartialEq)]
pub enum Ins {
    AddR(u8, u8, u8),
    AddI(u8, u8, i64),
    SubR(u8, u8, u8),
    SubI(u8, u8, i64),
    Mul(u8, u8, u8),
    Sdiv(u8, u8, u8),
    Msub(u8, u8, u8, u8),
    Madd(u8, u8, u8, u8),
    AluR(Alu, u8, u8, u8),
    /// shifts by an immediate 0..63
    ShiftI(Alu, u8, u8, i64),
    Neg(u8, u8),
    Mvn(u8, u8),
    /// ADDS / SUBS / CMN / TST (register operands; d may be XZR)
    AddsR(u8, u8, u8),
    SubsR(u8, u8, u8),
    AndsR(u8, u8, u8),
    Cbz(bool, u8, usize),
    Tbz(bool, u8, u32, usize),
    Nop,
    B(usize),
    Bcc(Cc, usize),
    Br(u8),
    Bl(String),
    Adr(u8, usize),
    Mov(u8, u8),
    Movz(u8, u64, u32),
    Movn(u8, u64, u32),
    Movk(u8, u64, u32),
    Ldr(u8, u8, i64),
    Str(u8, u8, i64),
    LdpPost(u8, u8, u8, i64),
    StpPre(u8, u8, u8, i64),
    CmpR(u8, u8),
    CmpI(u8, i64),
    Ret,
    Marker(Marker),
    Probe(usize),
}

pub struct Prog {
    pub ins: Vec<Ins>,
    pub addr: Vec<u64>,
    pub src_line: Vec<usize>,
    pub labels: BTreeMap<String, usize>,
    pub probe_names: Vec<String>,
    pub entry: usize,
    pub code_base: u64,
    pub code_end: u64,
}

fn reg(s: &str) -> Option<u8> {
    let s = s.trim();
    match s {
        "SP" => Some(SP),
        "XZR" => Some(XZR),
        _ => {
            let n: u8 = s.strip_prefix('X')?.parse().ok()?;
            if n <= 30 { Some(n) } else { None }
        }
    }
}

fn name(r: u8) -> String {
    match r {
        31 => "SP".into(),
        32 => "XZR".into(),
        n => format!("X{n}"),
    }
}

/// split at top-level commas (brackets group)
fn split_ops(s: &str) -> Vec<String> {
    let mut out = Vec::new();
    let mut depth = 0;
    let mut cur = String::new();
    for ch in s.chars() {
        match ch {
            '[' => {
                depth += 1;
                cur.push(ch);
            }
            ']' => {
                depth -= 1;
                cur.push(ch);
            }
            ',' if depth == 0 => {
                out.push(cur.trim().to_string());
                cur.clear();
            }
            _ => cur.push(ch),
        }
    }
    if !cur.trim().is_empty() {
        out.push(cur.trim().to_string());
    }
    out
}

pub fn load(text: &str, code_base: u64) -> Result<Prog, LoadErr> {
    let mut ins: Vec<Ins> = Vec::new();
    let mut src_line = Vec::new();
    let mut labels: BTreeMap<String, usize> = BTreeMap::new();
    let mut fixups: Vec<(usize, String, usize)> = Vec::new();
    let mut probe_names: Vec<String> = Vec::new();
    let mut probe_idx: BTreeMap<String, usize> = BTreeMap::new();
    for (ln0, raw) in text.lines().enumerate() {
        let line = ln0 + 1;
        let t = raw.trim();
        if t.is_empty() {
            continue;
        }
        if let Some(c) = t.strip_prefix("//") {
            let c = c.trim();
            if let Some(m) = parse_marker(c) {
                ins.push(Ins::Marker(m));
                src_line.push(line);
            } else if c.starts_with("@env") {
                return Err(LoadErr::Harness(format!("line {line}: malformed marker `{c}`")));
            } else if c.starts_with('#') {
                let k = probe_key(c);
                let i = *probe_idx.entry(k.clone()).or_insert_with(|| {
                    probe_names.push(k);
                    probe_names.len() - 1
                });
                ins.push(Ins::Probe(i));
                src_line.push(line);
            }
            continue;
        }
        if t == ".text" || t.starts_with(".global ") {
            continue;
        }
        if let Some(l) = t.strip_suffix(':') {
            if l.contains(char::is_whitespace) {
                // no assembler accepts white space inside a symbol
                return Err(LoadErr::Text(Viol::new(Class::Text, format!("line {line}: label `{l}` contains white space"))));
            }
            if labels.insert(l.to_string(), ins.len()).is_some() {
                return Err(LoadErr::Text(Viol::new(Class::Text, format!("line {line}: label `{l}` defined twice"))));
            }
            continue;
        }
        // a line with unbalanced brackets is not acceptable to any assembler (e.g. a symbol that was
        // broken across two lines)
        if t.matches('[').count() != t.matches(']').count() || t.matches('(').count() != t.matches(')').count() {
            return Err(LoadErr::Text(Viol::new(Class::Text, format!("line {line}: `{t}` has unbalanced brackets"))));
        }
        let (mn, rest) = match t.split_once(char::is_whitespace) {
            Some((m, r)) => (m, r.trim()),
            None => (t, ""),
        };
        let ops = split_ops(rest);
        let bad = |what: &str| LoadErr::Harness(format!("line {line}: {what}: `{t}`"));
        let noenc = |what: String| LoadErr::Text(Viol::new(Class::Text, format!("line {line}: `{t}`: {what}")));
        let r = |i: usize| -> Result<u8, LoadErr> { ops.get(i).and_then(|s| reg(s)).ok_or_else(|| bad("register operand")) };
        let gpr = |i: usize| -> Result<u8, LoadErr> {
            let x = r(i)?;
            if x == SP { Err(noenc("SP not allowed in this operand position".into())) } else { Ok(x) }
        };
        // [ Xn, imm ] | [ Xn, imm ]! | [ Xn ]
        let memop = |s: &str| -> Result<(u8, i64, bool), LoadErr> {
            let (s, pre) = match s.strip_suffix('!') {
                Some(x) => (x.trim(), true),
                None => (s, false),
            };
            let inner = s.strip_prefix('[').and_then(|x| x.strip_suffix(']')).ok_or_else(|| bad("memory operand"))?;
            let parts: Vec<&str> = inner.split(',').map(|x| x.trim()).collect();
            let b = reg(parts[0]).ok_or_else(|| bad("base register"))?;
            if b == XZR {
                return Err(noenc("XZR as base register".into()));
            }
            let d = if parts.len() > 1 { parts[1].parse::<i64>().map_err(|_| bad("offset"))? } else { 0 };
            Ok((b, d, pre))
        };
        let i = match mn {
            "ADD" | "SUB" => {
                if ops.len() != 3 {
                    return Err(bad("operand count"));
                }
                let d = r(0)?;
                let n = r(1)?;
                if let Some(m) = reg(&ops[2]) {
                    if d == SP || n == SP || m == SP {
                        return Err(noenc("SP in shifted-register form".into()));
                    }
                    if mn == "ADD" { Ins::AddR(d, n, m) } else { Ins::SubR(d, n, m) }
                } else {
                    let imm: i64 = ops[2].parse().map_err(|_| bad("immediate"))?;
                    if !(0..=4095).contains(&imm) {
                        return Err(noenc(format!("immediate {imm} outside 0..4095")));
                    }
                    if d == XZR || n == XZR {
                        return Err(noenc("XZR in immediate form".into()));
                    }
                    if mn == "ADD" { Ins::AddI(d, n, imm) } else { Ins::SubI(d, n, imm) }
                }
            }
            "MUL" | "SDIV" => {
                if ops.len() != 3 {
                    return Err(bad("operand count"));
                }
                let (d, n, m) = (gpr(0)?, gpr(1)?, gpr(2)?);
                if mn == "MUL" { Ins::Mul(d, n, m) } else { Ins::Sdiv(d, n, m) }
            }
            "MSUB" => {
                if ops.len() != 4 {
                    return Err(bad("operand count"));
                }
                Ins::Msub(gpr(0)?, gpr(1)?, gpr(2)?, gpr(3)?)
            }
            "B" | "BL" | "BEQ" | "BNE" | "BLT" | "BLE" | "BGT" | "BGE" | "B.EQ" | "B.NE" | "B.LT" | "B.LE" | "B.GT" | "B.GE" | "B.MI" | "B.PL" | "B.HI" | "B.LS" | "B.HS" | "B.CS" | "B.LO"
            | "B.CC" => {
                if ops.len() != 1 {
                    return Err(bad("operand count"));
                }
                if mn == "BL" {
                    Ins::Bl(ops[0].clone())
                } else {
                    fixups.push((ins.len(), ops[0].clone(), line));
                    match mn.trim_start_matches("B").trim_start_matches('.') {
                        "" => Ins::B(usize::MAX),
                        "EQ" => Ins::Bcc(Cc::Eq, usize::MAX),
                        "NE" => Ins::Bcc(Cc::Ne, usize::MAX),
                        "LT" => Ins::Bcc(Cc::Lt, usize::MAX),
                        "LE" => Ins::Bcc(Cc::Le, usize::MAX),
                        "GT" => Ins::Bcc(Cc::Gt, usize::MAX),
                        "MI" => Ins::Bcc(Cc::Mi, usize::MAX),
                        "PL" => Ins::Bcc(Cc::Pl, usize::MAX),
                        "HI" => Ins::Bcc(Cc::Hi, usize::MAX),
                        "LS" => Ins::Bcc(Cc::Ls, usize::MAX),
                        "HS" | "CS" => Ins::Bcc(Cc::Hs, usize::MAX),
                        "LO" | "CC" => Ins::Bcc(Cc::Lo, usize::MAX),
                        _ => Ins::Bcc(Cc::Ge, usize::MAX),
                    }
                }
            }
            "BR" => Ins::Br(gpr(0)?),
            "ADR" => {
                if ops.len() != 2 {
                    return Err(bad("operand count"));
                }
                fixups.push((ins.len(), ops[1].clone(), line));
                Ins::Adr(gpr(0)?, usize::MAX)
            }
            "MOV" => {
                if ops.len() != 2 {
                    return Err(bad("operand count"));
                }
                Ins::Mov(r(0)?, r(1)?)
            }
            "MOVZ" | "MOVN" | "MOVK" => {
                if ops.len() != 3 {
                    return Err(bad("operand count"));
                }
                let d = gpr(0)?;
                let imm: i64 = ops[1].parse().map_err(|_| bad("immediate"))?;
                let sh: i64 = ops[2].strip_prefix("LSL").map(|x| x.trim()).ok_or_else(|| bad("shift"))?.parse().map_err(|_| bad("shift"))?;
                if !(0..=65535).contains(&imm) {
                    return Err(noenc(format!("immediate {imm} outside 0..65535")));
                }
                if ![0, 16, 32, 48].contains(&sh) {
                    return Err(noenc(format!("shift {sh} not in {{0,16,32,48}}")));
                }
                match mn {
                    "MOVZ" => Ins::Movz(d, imm as u64, sh as u32),
                    "MOVN" => Ins::Movn(d, imm as u64, sh as u32),
                    _ => Ins::Movk(d, imm as u64, sh as u32),
                }
            }
            "LDR" | "STR" => {
                if ops.len() != 2 {
                    return Err(bad("operand count"));
                }
                let t0 = r(0)?;
                if t0 == SP {
                    return Err(noenc("SP as transfer register".into()));
                }
                let (b, d, pre) = memop(&ops[1])?;
                if pre {
                    return Err(bad("pre-index LDR/STR"));
                }
                if !(0..=32760).contains(&d) || d % 8 != 0 {
                    return Err(noenc(format!("offset {d} outside the scaled 12-bit range 0..32760 step 8")));
                }
                if mn == "LDR" { Ins::Ldr(t0, b, d) } else { Ins::Str(t0, b, d) }
            }
            "LDP" => {
                // LDP Xa, Xb, [ SP ], 16
                if ops.len() != 4 {
                    return Err(bad("operand count"));
                }
                let (b, d0, pre) = memop(&ops[2])?;
                if pre || d0 != 0 {
                    return Err(bad("LDP form"));
                }
                let d: i64 = ops[3].parse().map_err(|_| bad("offset"))?;
                if !(-512..=504).contains(&d) || d % 8 != 0 {
                    return Err(noenc(format!("pair offset {d} outside -512..504 step 8")));
                }
                Ins::LdpPost(gpr(0)?, gpr(1)?, b, d)
            }
            "STP" => {
                if ops.len() != 3 {
                    return Err(bad("operand count"));
                }
                let (b, d, pre) = memop(&ops[2])?;
                if !pre {
                    return Err(bad("STP form"));
                }
                if !(-512..=504).contains(&d) || d % 8 != 0 {
                    return Err(noenc(format!("pair offset {d} outside -512..504 step 8")));
                }
                Ins::StpPre(gpr(0)?, gpr(1)?, b, d)
            }
            "CMP" => {
                if ops.len() != 2 {
                    return Err(bad("operand count"));
                }
                let n = r(0)?;
                if let Some(m) = reg(&ops[1]) {
                    if n == SP || m == SP {
                        return Err(noenc("SP in shifted-register CMP".into()));
                    }
                    Ins::CmpR(n, m)
                } else {
                    let imm: i64 = ops[1].parse().map_err(|_| bad("immediate"))?;
                    if !(0..=4095).contains(&imm) {
                        return Err(noenc(format!("immediate {imm} outside 0..4095")));
                    }
                    Ins::CmpI(n, imm)
                }
            }
            "RET" => Ins::Ret,
            "NOP" => Ins::Nop,
            "MADD" => {
                if ops.len() != 4 {
                    return Err(bad("operand count"));
                }
                Ins::Madd(gpr(0)?, gpr(1)?, gpr(2)?, gpr(3)?)
            }
            "AND" | "ORR" | "EOR" | "UDIV" | "LSL" | "LSR" | "ASR" | "LSLV" | "LSRV" | "ASRV" => {
                if ops.len() != 3 {
                    return Err(bad("operand count"));
                }
                let op = match mn {
                    "AND" => Alu::And,
                    "ORR" => Alu::Orr,
                    "EOR" => Alu::Eor,
                    "UDIV" => Alu::Udiv,
                    "LSL" | "LSLV" => Alu::Lsl,
                    "LSR" | "LSRV" => Alu::Lsr,
                    _ => Alu::Asr,
                };
                let (d, n) = (gpr(0)?, gpr(1)?);
                if let Some(m) = reg(&ops[2]) {
                    if m == SP {
                        return Err(noenc("SP as a data-processing operand".into()));
                    }
                    Ins::AluR(op, d, n, m)
                } else if matches!(op, Alu::Lsl | Alu::Lsr | Alu::Asr) {
                    let imm: i64 = ops[2].parse().map_err(|_| bad("immediate"))?;
                    if !(0..64).contains(&imm) {
                        return Err(noenc(format!("shift amount {imm} outside 0..63")));
                    }
                    Ins::ShiftI(op, d, n, imm)
                } else {
                    // logical immediates are bitmask encodings; not modelled
                    return Err(bad("logical immediate form is not modelled"));
                }
            }
            "NEG" | "MVN" => {
                if ops.len() != 2 {
                    return Err(bad("operand count"));
                }
                if mn == "NEG" { Ins::Neg(gpr(0)?, gpr(1)?) } else { Ins::Mvn(gpr(0)?, gpr(1)?) }
            }
            "ADDS" | "SUBS" | "ANDS" => {
                if ops.len() != 3 {
                    return Err(bad("operand count"));
                }
                let (d, n, m) = (gpr(0)?, gpr(1)?, gpr(2)?);
                match mn {
                    "ADDS" => Ins::AddsR(d, n, m),
                    "SUBS" => Ins::SubsR(d, n, m),
                    _ => Ins::AndsR(d, n, m),
                }
            }
            "CMN" | "TST" => {
                if ops.len() != 2 {
                    return Err(bad("operand count"));
                }
                let (n, m) = (gpr(0)?, gpr(1)?);
                if mn == "CMN" { Ins::AddsR(XZR, n, m) } else { Ins::AndsR(XZR, n, m) }
            }
            "CBZ" | "CBNZ" => {
                if ops.len() != 2 {
                    return Err(bad("operand count"));
                }
                fixups.push((ins.len(), ops[1].clone(), line));
                Ins::Cbz(mn == "CBZ", gpr(0)?, usize::MAX)
            }
            "TBZ" | "TBNZ" => {
                if ops.len() != 3 {
                    return Err(bad("operand count"));
                }
                let bit: u32 = ops[1].trim_start_matches('#').parse().map_err(|_| bad("bit number"))?;
                if bit > 63 {
                    return Err(noenc(format!("bit number {bit} outside 0..63")));
                }
                fixups.push((ins.len(), ops[2].clone(), line));
                Ins::Tbz(mn == "TBZ", gpr(0)?, bit, usize::MAX)
            }
            // (mnemonics of this assembler syntax are spelled with these characters only)
            m if !m.chars().all(|c| c.is_ascii_uppercase() || c.is_ascii_digit() || c == '.') => {
                return Err(LoadErr::Text(Viol::new(Class::Text, format!("line {line}: `{t}` is neither an instruction nor a label nor a directive"))));
            }
            _ => return Err(bad("unknown mnemonic")),
        };
        ins.push(i);
        src_line.push(line);
    }
    for (idx, l, line) in fixups {
        let tgt = *labels
            .get(&l)
            .ok_or_else(|| LoadErr::Text(Viol::new(Class::Text, format!("line {line}: undefined label `{l}`"))))?;
        match &mut ins[idx] {
            Ins::B(t) | Ins::Bcc(_, t) | Ins::Adr(_, t) | Ins::Cbz(_, _, t) | Ins::Tbz(_, _, _, t) => *t = tgt,
            _ => unreachable!(),
        }
    }
    let mut addr = Vec::with_capacity(ins.len() + 1);
    let mut a = code_base;
    for i in &ins {
        addr.push(a);
        a += match i {
            Ins::Marker(_) | Ins::Probe(_) => 0,
            _ => 4,
        };
    }
    addr.push(a);
    for (k, i) in ins.iter().enumerate() {
        if let Ins::Adr(_, t) = i {
            let d = addr[*t] as i64 - addr[k] as i64;
            if !(-(1 << 20)..(1 << 20)).contains(&d) {
                return Err(LoadErr::Text(Viol::new(Class::Text, format!("line {}: ADR target out of the ±1 MiB range", src_line[k]))));
            }
        }
    }
    let entry = *labels.get("asm_main").ok_or_else(|| LoadErr::Text(Viol::new(Class::Text, "no asm_main label")))?;
    Ok(Prog { ins, addr, src_line, labels, probe_names, entry, code_base, code_end: a })
}

#[derive(Clone, Copy)]
struct Flags {
    n: bool,
    z: bool,
    v: bool,
    c: bool,
    u: u32,
}

struct Machine<'a> {
    p: &'a Prog,
    c: Core<'a>,
    /// X0..X30, SP at index 31
    regs: [V; 32],
    flags: Flags,
    entry_regs: [V; 32],
    pc: usize,
}

impl<'a> Machine<'a> {
    fn line(&self) -> usize {
        self.p.src_line[self.pc]
    }
    fn get(&self, r: u8) -> V {
        if r == XZR { V::d(0) } else { self.regs[r as usize] }
    }
    fn set(&mut self, r: u8, v: V) {
        if r != XZR {
            self.regs[r as usize] = v;
        }
    }
    fn need(&self, v: V, what: &str) -> Res<u64> {
        self.c.need(v, what, self.line())
    }
    fn sp(&self) -> u64 {
        self.regs[SP as usize].v
    }
    fn ea(&mut self, b: u8, d: i64) -> Res<u64> {
        let base = self.need(self.regs[b as usize], &format!("address formation via {}", name(b)))?;
        if b == SP && base % 16 != 0 {
            self.c.soft(Viol::new(
                Class::Align,
                format!("stack access at line {} with SP not 16-byte aligned (SP alignment fault)", self.line()),
            ));
        }
        Ok(base.wrapping_add(d as u64))
    }
    fn addr_to_index(&self, a: u64) -> Option<usize> {
        if a < self.p.code_base || a >= self.p.code_end {
            return None;
        }
        let i = self.p.addr.partition_point(|x| *x < a);
        if i < self.p.ins.len() && self.p.addr[i] == a { Some(i) } else { None }
    }
    /// position -> temporary as documented for the AArch64 backend: logical registers from 4 on
    /// (logical r prints as Xr below 18 and X(r+1) from 18 on), then spill slots from 1,
    /// slot s at SP + 2048 - 8(s+1)
    fn temp(&mut self, t: usize) -> Res<V> {
        let r = t + 4;
        if r < 30 {
            let phys = if r < 18 { r } else { r + 1 };
            Ok(self.regs[phys])
        } else {
            let s = r - 30 + 1;
            let sp = self.sp();
            let a = sp.wrapping_add(2048).wrapping_sub(8 * (s as u64 + 1));
            self.c.mem.load(a, sp, "spill slot of a live variable")
        }
    }
    fn set_flags_sub(&mut self, a: V, b: V) {
        let (r, of) = (a.v as i64).overflowing_sub(b.v as i64);
        // C after a subtraction = no borrow
        self.flags = Flags { n: r < 0, z: r == 0, v: of, c: a.v >= b.v, u: if a.u != 0 { a.u } else { b.u } };
    }

    fn run(&mut self, entry_sp: u64) -> Res<i64> {
        let p = self.p;
        loop {
            if self.pc >= p.ins.len() {
                return Err(Viol::new(Class::BadJump, "control fell off the end of the text"));
            }
            let ins = &p.ins[self.pc];
            match ins {
                Ins::Probe(i) => {
                    self.c.probe_counts[*i] += 1;
                    self.pc += 1;
                    continue;
                }
                Ins::Marker(mk) => {
                    if self.c.opts.check_heap || self.c.snaps.len() < self.c.opts.record_snaps {
                        let mut temps = Vec::with_capacity(mk.env.len());
                        for pos in 0..mk.env.len() {
                            let a = self.temp(2 * pos)?;
                            let b = self.temp(2 * pos + 1)?;
                            temps.push((a, b));
                        }
                        let (h, f) = (self.regs[0], self.regs[1]);
                        self.c.marker(mk, self.pc, h, f, &temps);
                    } else {
                        self.c.out.markers += 1;
                    }
                    self.pc += 1;
                    continue;
                }
                _ => {}
            }
            self.c.out.steps += 1;
            if self.c.out.steps > self.c.opts.step_budget {
                return Err(Viol::new(Class::Progress, format!("step budget of {} instructions exhausted", self.c.opts.step_budget)));
            }
            let sp = self.sp();
            if sp < self.c.mem.stack_lo + 64 || sp > entry_sp {
                return Err(Viol::new(Class::Confinement, format!("stack pointer left the stack region (entry_sp{:+})", sp as i64 - entry_sp as i64)));
            }
            let mut next = self.pc + 1;
            match ins {
                Ins::AddR(d, n, m) => {
                    let (x, y) = (self.get(*n), self.get(*m));
                    self.set(*d, V::combine(x.v.wrapping_add(y.v), x, y));
                }
                Ins::AddI(d, n, i) => {
                    let x = self.get(*n);
                    self.set(*d, V { v: x.v.wrapping_add(*i as u64), u: x.u });
                }
                Ins::SubR(d, n, m) => {
                    let (x, y) = (self.get(*n), self.get(*m));
                    self.set(*d, V::combine(x.v.wrapping_sub(y.v), x, y));
                }
                Ins::SubI(d, n, i) => {
                    let x = self.get(*n);
                    self.set(*d, V { v: x.v.wrapping_sub(*i as u64), u: x.u });
                }
                Ins::Mul(d, n, m) => {
                    let (x, y) = (self.get(*n), self.get(*m));
                    self.set(*d, V::combine(x.v.wrapping_mul(y.v), x, y));
                }
                Ins::Sdiv(d, n, m) => {
                    let (x, y) = (self.get(*n), self.get(*m));
                    let (a, b) = (x.v as i64, y.v as i64);
                    let q = if b == 0 { 0 } else { a.wrapping_div(b) };
                    self.set(*d, V::combine(q as u64, x, y));
                }
                Ins::Msub(d, n, m, a) => {
                    let (x, y, z) = (self.get(*n), self.get(*m), self.get(*a));
                    let r = z.v.wrapping_sub(x.v.wrapping_mul(y.v));
                    let u = if x.u != 0 { x.u } else if y.u != 0 { y.u } else { z.u };
                    self.set(*d, V { v: r, u });
                }
                Ins::Nop => {}
                Ins::Madd(d, n, m, a) => {
                    let (x, y, z) = (self.get(*n), self.get(*m), self.get(*a));
                    let u = if x.u != 0 { x.u } else if y.u != 0 { y.u } else { z.u };
                    self.set(*d, V { v: z.v.wrapping_add(x.v.wrapping_mul(y.v)), u });
                }
                Ins::AluR(op, d, n, m) => {
                    let (x, y) = (self.get(*n), self.get(*m));
                    // `EOR Xd, Xn, Xn` does not depend on the old value
                    let v = if *op == Alu::Eor && n == m { V::d(0) } else { V::combine(alu(*op, x.v, y.v), x, y) };
                    self.set(*d, v);
                }
                Ins::ShiftI(op, d, n, i) => {
                    let x = self.get(*n);
                    self.set(*d, V { v: alu(*op, x.v, *i as u64), u: x.u });
                }
                Ins::Neg(d, m) => {
                    let x = self.get(*m);
                    self.set(*d, V { v: x.v.wrapping_neg(), u: x.u });
                }
                Ins::Mvn(d, m) => {
                    let x = self.get(*m);
                    self.set(*d, V { v: !x.v, u: x.u });
                }
                Ins::SubsR(d, n, m) => {
                    let (x, y) = (self.get(*n), self.get(*m));
                    self.set_flags_sub(x, y);
                    self.set(*d, V::combine(x.v.wrapping_sub(y.v), x, y));
                }
                Ins::AddsR(d, n, m) => {
                    let (x, y) = (self.get(*n), self.get(*m));
                    let (r, of) = (x.v as i64).overflowing_add(y.v as i64);
                    self.flags = Flags { n: r < 0, z: r == 0, v: of, c: x.v.checked_add(y.v).is_none(), u: if x.u != 0 { x.u } else { y.u } };
                    self.set(*d, V::combine(r as u64, x, y));
                }
                Ins::AndsR(d, n, m) => {
                    let (x, y) = (self.get(*n), self.get(*m));
                    let r = x.v & y.v;
                    self.flags = Flags { n: (r as i64) < 0, z: r == 0, v: false, c: false, u: if x.u != 0 { x.u } else { y.u } };
                    self.set(*d, V::combine(r, x, y));
                }
                Ins::Cbz(zero, r, t) => {
                    let x = self.need(self.get(*r), "compare-and-branch operand")?;
                    if (x == 0) == *zero {
                        next = *t;
                    }
                }
                Ins::Tbz(zero, r, bit, t) => {
                    let x = self.need(self.get(*r), "test-and-branch operand")?;
                    if ((x >> bit) & 1 == 0) == *zero {
                        next = *t;
                    }
                }
                Ins::B(t) => next = *t,
                Ins::Bcc(cc, t) => {
                    if self.flags.u != 0 {
                        return Err(self.c.undef_viol(self.flags.u, "conditional branch depends on undefined flags", self.line()));
                    }
                    let f = self.flags;
                    let take = match cc {
                        Cc::Eq => f.z,
                        Cc::Ne => !f.z,
                        Cc::Lt => f.n != f.v,
                        Cc::Le => f.z || f.n != f.v,
                        Cc::Gt => !f.z && f.n == f.v,
                        Cc::Ge => f.n == f.v,
                        Cc::Mi => f.n,
                        Cc::Pl => !f.n,
                        Cc::Hi => f.c && !f.z,
                        Cc::Ls => !f.c || f.z,
                        Cc::Hs => f.c,
                        Cc::Lo => !f.c,
                    };
                    if take {
                        next = *t;
                    }
                }
                Ins::Br(r) => {
                    let a = self.need(self.get(*r), "indirect branch target")?;
                    next = self.addr_to_index(a).ok_or_else(|| {
                        Viol::new(
                            Class::BadJump,
                            format!("indirect branch at line {} to code_base{:+}, which is not the start of an instruction", self.line(), a as i64 - p.code_base as i64),
                        )
                    })?;
                }
                Ins::Adr(d, t) => self.set(*d, V::d(p.addr[*t])),
                Ins::Mov(d, s) => {
                    let v = self.get(*s);
                    self.set(*d, v);
                }
                Ins::Movz(d, i, s) => self.set(*d, V::d(*i << *s)),
                Ins::Movn(d, i, s) => self.set(*d, V::d(!(*i << *s))),
                Ins::Movk(d, i, s) => {
                    let o = self.get(*d);
                    self.set(*d, V { v: (o.v & !(0xffffu64 << *s)) | (*i << *s), u: o.u });
                }
                Ins::Ldr(t, b, d) => {
                    let a = self.ea(*b, *d)?;
                    let line = self.line();
                    let v = self.c.mem.load(a, sp, &format!("line {line}"))?;
                    self.set(*t, v);
                }
                Ins::Str(t, b, d) => {
                    let a = self.ea(*b, *d)?;
                    let line = self.line();
                    let v = self.get(*t);
                    self.c.mem.store(a, v, sp, &format!("line {line}"))?;
                }
                Ins::StpPre(t1, t2, b, d) => {
                    // address = base + d; written back to base; access uses the new address
                    let base = self.need(self.regs[*b as usize], "address formation")?;
                    let a = base.wrapping_add(*d as u64);
                    if *b == SP && base % 16 != 0 {
                        self.c.soft(Viol::new(Class::Align, format!("stack access at line {} with SP not 16-byte aligned", self.line())));
                    }
                    let nsp = if *b == SP { a.min(sp) } else { sp };
                    let (v1, v2) = (self.get(*t1), self.get(*t2));
                    self.c.mem.store(a, v1, nsp, "STP")?;
                    self.c.mem.store(a + 8, v2, nsp, "STP")?;
                    self.regs[*b as usize] = V::d(a);
                }
                Ins::LdpPost(t1, t2, b, d) => {
                    let a = self.ea(*b, 0)?;
                    let v1 = self.c.mem.load(a, sp, "LDP")?;
                    let v2 = self.c.mem.load(a + 8, sp, "LDP")?;
                    self.set(*t1, v1);
                    self.set(*t2, v2);
                    self.regs[*b as usize] = V::d(a.wrapping_add(*d as u64));
                }
                Ins::CmpR(n, m) => {
                    let (x, y) = (self.get(*n), self.get(*m));
                    self.set_flags_sub(x, y);
                }
                Ins::CmpI(n, i) => {
                    let x = self.get(*n);
                    self.set_flags_sub(x, V::d(*i as u64));
                }
                Ins::Bl(sym) => {
                    let newline = match sym.as_str() {
                        "print_i64" => false,
                        "println_i64" => true,
                        _ => return Err(Viol::new(Class::Text, format!("call of unknown runtime symbol {sym}"))),
                    };
                    if sp % 16 != 0 {
                        self.c.soft(Viol::new(
                            Class::Align,
                            format!("BL {sym} at line {} with SP = entry_sp{:+}, not 16-byte aligned", self.line(), sp as i64 - entry_sp as i64),
                        ));
                    }
                    let a = self.need(self.regs[0], &format!("argument of {sym} (X0)"))?;
                    self.c.out.calls.push(CallEv { newline, arg: a as i64 });
                    self.c.log.add(0xca11 ^ a.rotate_left(7) ^ newline as u64);
                    self.c.out.faults.calls += 1;
                    let call_idx = self.c.call_idx;
                    let plan = self.c.plan;
                    // architecture: BL writes the return address to X30
                    let ret_addr = p.addr[self.pc] + 4;
                    let hostile_here = plan.call_enabled(call_idx);
                    if hostile_here && plan.e1_regs && plan.reg_enabled(LR) {
                        let o = self.c.origin(OriginKind::CallLink, format!("X30 overwritten by BL #{call_idx} ({sym})"));
                        self.regs[LR as usize] = V { v: ret_addr, u: o };
                        self.c.out.faults.e1_link_overwritten += 1;
                    } else {
                        self.regs[LR as usize] = V::d(ret_addr);
                    }
                    if hostile_here {
                        if plan.e1_regs {
                            for r in 0..=17u8 {
                                if plan.reg_enabled(r) {
                                    let o = self.c.origin(OriginKind::CallReg, format!("X{r} destroyed by call #{call_idx} ({sym})"));
                                    self.regs[r as usize] = V { v: plan.garbage(0xe1_0000 + call_idx as u64, r as u64), u: o };
                                    self.c.out.faults.e1_regs_destroyed += 1;
                                }
                            }
                        }
                        if plan.e2_flags {
                            let o = self.c.origin(OriginKind::CallFlags, format!("flags destroyed by call #{call_idx} ({sym})"));
                            self.flags.u = o;
                            self.c.out.faults.e2_flags_destroyed += 1;
                        }
                        if plan.e3_depth > 0 {
                            let o = self.c.origin(OriginKind::CallStack, format!("stack below SP overwritten by call #{call_idx} ({sym})"));
                            for i in 1..=plan.e3_depth as u64 {
                                let a = sp.wrapping_sub(8 * i);
                                if self.c.mem.poke_stack(a, V { v: plan.garbage(0xe3_0000 + call_idx as u64, i), u: o }) {
                                    self.c.out.faults.e3_stack_words += 1;
                                }
                            }
                        }
                    }
                    self.c.call_idx += 1;
                }
                Ins::Ret => {
                    let ra = self.need(self.regs[LR as usize], "return address in X30")?;
                    if ra != RET_SENTINEL {
                        return Err(Viol::new(Class::Abi, "RET does not return to the caller's return address"));
                    }
                    if sp != entry_sp {
                        return Err(Viol::new(Class::Abi, format!("RET with SP = entry_sp{:+}: stack pointer not restored", sp as i64 - entry_sp as i64)));
                    }
                    for r in 19..=29usize {
                        let e = self.entry_regs[r];
                        let c = self.regs[r];
                        if e.v != c.v || (e.u == 0) != (c.u == 0) {
                            self.c.soft(Viol::new(
                                Class::Abi,
                                format!("callee-saved register X{r} not restored at return ({:#x} instead of {:#x})", c.v, e.v),
                            ));
                        }
                    }
                    let res = self.need(self.regs[0], "result in X0 at return")?;
                    return Ok(res as i64);
                }
                Ins::Marker(_) | Ins::Probe(_) => unreachable!(),
            }
            self.pc = next;
        }
    }
}

pub fn exec(p: &Prog, args: &[i64], plan: &EnvPlan, opts: &ExecOpts) -> (ExecOutcome, Vec<Snap>) {
    // AAPCS64: SP is 16-byte aligned at a public interface
    let entry_sp = plan.stack_top & !0xf;
    let c = Core::new(plan, opts, entry_sp, 0, p.probe_names.len(), true);
    let mut m = Machine { p, c, regs: [V::d(0); 32], flags: Flags { n: false, z: false, v: false, c: false, u: 0 }, entry_regs: [V::d(0); 32], pc: p.entry };
    if plan.e4_entry {
        for r in 0..=29u8 {
            let kind = if r >= 19 { OriginKind::EntryCalleeSaved } else { OriginKind::EntryScratch };
            let o = m.c.origin(kind, format!("X{r} at entry"));
            m.regs[r as usize] = V { v: plan.garbage(0xe4, r as u64), u: o };
            m.c.out.faults.e4_entry_regs += 1;
        }
        let o = m.c.origin(OriginKind::EntryScratch, "flags at entry".into());
        m.flags.u = o;
    } else {
        for r in 19..=29usize {
            m.regs[r] = V::d(0xc0de_0000 + r as u64);
        }
    }
    m.regs[SP as usize] = V::d(entry_sp);
    m.regs[LR as usize] = V::d(RET_SENTINEL);
    m.regs[0] = V::d(plan.heap_base);
    if args.len() > 7 {
        return m.c.finish(Err(Viol::new(Class::Text, "more than seven arguments")), &p.probe_names);
    }
    for (i, a) in args.iter().enumerate() {
        m.regs[i + 1] = V::d(*a as u64);
    }
    m.entry_regs = m.regs;
    let r = m.run(entry_sp);
    m.c.finish(r, &p.probe_names)
}
