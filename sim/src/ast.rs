//! Serialisable mirror of the (linearized) AxCut syntax. Replay files hold programs in this form;
//! conversion to and from `axcut::syntax::Prog` is mechanical.

use serde::{Deserialize, Serialize};
use std::rc::Rc;

use axcut::syntax as ax;
use axcut::syntax::statements as axs;

#[derive(Serialize, Deserialize, Clone, Debug, PartialEq, Eq, Hash, PartialOrd, Ord)]
pub struct Name {
    pub n: String,
    pub i: usize,
}

impl Name {
    pub fn new(n: &str, i: usize) -> Name {
        Name { n: n.to_string(), i }
    }
    pub fn show(&self) -> String {
        if self.i == 0 { self.n.clone() } else { format!("{}_{}", self.n, self.i) }
    }
}

#[derive(Serialize, Deserialize, Clone, Copy, Debug, PartialEq, Eq, Hash, PartialOrd, Ord)]
pub enum Chi {
    P,
    C,
    E,
}

#[derive(Serialize, Deserialize, Clone, Debug, PartialEq, Eq, Hash, PartialOrd, Ord)]
pub enum Ty {
    I64,
    D(Name),
}

#[derive(Serialize, Deserialize, Clone, Debug, PartialEq, Eq, Hash)]
pub struct Bind {
    pub v: Name,
    pub chi: Chi,
    pub ty: Ty,
}

#[derive(Serialize, Deserialize, Clone, Debug, PartialEq)]
pub struct Xtor {
    pub name: Name,
    pub args: Vec<Bind>,
}

#[derive(Serialize, Deserialize, Clone, Debug, PartialEq)]
pub struct TyDecl {
    pub name: Name,
    pub xtors: Vec<Xtor>,
}

#[derive(Serialize, Deserialize, Clone, Copy, Debug, PartialEq, Eq)]
pub enum BinOp {
    Div,
    Prod,
    Rem,
    Sum,
    Sub,
}

#[derive(Serialize, Deserialize, Clone, Copy, Debug, PartialEq, Eq)]
pub enum IfSort {
    Eq,
    Ne,
    Lt,
    Le,
    Gt,
    Ge,
}

#[derive(Serialize, Deserialize, Clone, Debug, PartialEq)]
pub struct Clause {
    pub xtor: Name,
    pub ctx: Vec<Bind>,
    pub body: Rc<Stmt>,
}

#[derive(Serialize, Deserialize, Clone, Debug, PartialEq)]
pub enum Stmt {
    Subst { map: Vec<(Bind, Name)>, next: Rc<Stmt> },
    Call { label: Name, args: Vec<Bind> },
    Let { var: Name, ty: Ty, tag: Name, args: Vec<Bind>, next: Rc<Stmt> },
    Switch { var: Name, ty: Ty, clauses: Vec<Clause> },
    Create { var: Name, ty: Ty, env: Vec<Bind>, clauses: Vec<Clause>, next: Rc<Stmt> },
    Invoke { var: Name, tag: Name, ty: Ty, args: Vec<Bind> },
    Lit { lit: i64, var: Name, next: Rc<Stmt> },
    Op { fst: Name, op: BinOp, snd: Name, var: Name, next: Rc<Stmt> },
    Print { newline: bool, var: Name, next: Rc<Stmt> },
    If { sort: IfSort, fst: Name, snd: Option<Name>, thenc: Rc<Stmt>, elsec: Rc<Stmt> },
    Exit { var: Name },
}

#[derive(Serialize, Deserialize, Clone, Debug, PartialEq)]
pub struct Def {
    pub name: Name,
    pub params: Vec<Bind>,
    pub body: Rc<Stmt>,
}

#[derive(Serialize, Deserialize, Clone, Debug, PartialEq)]
pub struct Prog {
    pub types: Vec<TyDecl>,
    pub defs: Vec<Def>,
    pub max_id: usize,
}

// ---------------------------------------------------------------------------------------------
// mirror -> axcut

fn id(n: &Name) -> ax::Identifier {
    ax::Identifier { name: n.n.clone(), id: n.i }
}

thread_local! {
    /// (noise seed, occurrence counter); seed 0 = display names as generated
    static NAME_NOISE: std::cell::Cell<(u64, u64)> = const { std::cell::Cell::new((0, 0)) };
}

/// A variable occurrence. Variables are identified by their id alone ("the name is just for
/// pretty-printing", axcut::syntax::names); with name noise on, occurrences of one variable carry
/// different display names.
fn vid(n: &Name) -> ax::Identifier {
    let (seed, k) = NAME_NOISE.with(|c| c.get());
    if seed == 0 {
        return id(n);
    }
    NAME_NOISE.with(|c| c.set((seed, k + 1)));
    let mut z = seed ^ k.wrapping_mul(0x9E37_79B9_7F4A_7C15);
    z = (z ^ (z >> 30)).wrapping_mul(0xBF58_476D_1CE4_E5B9);
    z = (z ^ (z >> 27)).wrapping_mul(0x94D0_49BB_1331_11EB);
    z ^= z >> 31;
    let name = match z % 4 {
        0 => n.n.clone(),
        1 => format!("{}x", n.n),
        2 => "q".to_string(),
        _ => format!("n{}", (z >> 8) % 5),
    };
    ax::Identifier { name, id: n.i }
}
fn chi(c: Chi) -> ax::Chirality {
    match c {
        Chi::P => ax::Chirality::Prd,
        Chi::C => ax::Chirality::Cns,
        Chi::E => ax::Chirality::Ext,
    }
}
fn ty(t: &Ty) -> ax::Ty {
    match t {
        Ty::I64 => ax::Ty::I64,
        Ty::D(n) => ax::Ty::Decl(id(n)),
    }
}
fn bind(b: &Bind) -> ax::ContextBinding {
    ax::ContextBinding { var: vid(&b.v), chi: chi(b.chi), ty: ty(&b.ty) }
}
fn ctx(bs: &[Bind]) -> ax::TypingContext {
    ax::TypingContext { bindings: bs.iter().map(bind).collect() }
}
fn clause(c: &Clause) -> axs::Clause {
    axs::Clause { xtor: id(&c.xtor), context: ctx(&c.ctx), body: Rc::new(stmt(&c.body)) }
}

pub fn stmt(s: &Stmt) -> ax::Statement {
    match s {
        Stmt::Subst { map, next } => axs::Substitute {
            rearrange: map.iter().map(|(b, o)| (bind(b), vid(o))).collect(),
            next: Rc::new(stmt(next)),
        }
        .into(),
        Stmt::Call { label, args } => axs::Call { label: id(label), args: ctx(args) }.into(),
        Stmt::Let { var, ty: t, tag, args, next } => axs::Let {
            var: vid(var),
            ty: ty(t),
            tag: id(tag),
            args: ctx(args),
            next: Rc::new(stmt(next)),
            free_vars_next: None,
        }
        .into(),
        Stmt::Switch { var, ty: t, clauses } => axs::Switch {
            var: vid(var),
            ty: ty(t),
            clauses: clauses.iter().map(clause).collect(),
            free_vars_clauses: None,
        }
        .into(),
        Stmt::Create { var, ty: t, env, clauses, next } => axs::Create {
            var: vid(var),
            ty: ty(t),
            context: Some(ctx(env)),
            clauses: clauses.iter().map(clause).collect(),
            free_vars_clauses: None,
            next: Rc::new(stmt(next)),
            free_vars_next: None,
        }
        .into(),
        Stmt::Invoke { var, tag, ty: t, args } => {
            axs::Invoke { var: vid(var), tag: id(tag), ty: ty(t), args: ctx(args) }.into()
        }
        Stmt::Lit { lit, var, next } => axs::Literal {
            lit: *lit,
            var: vid(var),
            next: Rc::new(stmt(next)),
            free_vars_next: None,
        }
        .into(),
        Stmt::Op { fst, op, snd, var, next } => axs::Op {
            fst: vid(fst),
            op: match op {
                BinOp::Div => ax::BinOp::Div,
                BinOp::Prod => ax::BinOp::Prod,
                BinOp::Rem => ax::BinOp::Rem,
                BinOp::Sum => ax::BinOp::Sum,
                BinOp::Sub => ax::BinOp::Sub,
            },
            snd: vid(snd),
            var: vid(var),
            next: Rc::new(stmt(next)),
            free_vars_next: None,
        }
        .into(),
        Stmt::Print { newline, var, next } => axs::PrintI64 {
            newline: *newline,
            var: vid(var),
            next: Rc::new(stmt(next)),
            free_vars_next: None,
        }
        .into(),
        Stmt::If { sort, fst, snd, thenc, elsec } => axs::IfC {
            sort: match sort {
                IfSort::Eq => axs::ifc::IfSort::Equal,
                IfSort::Ne => axs::ifc::IfSort::NotEqual,
                IfSort::Lt => axs::ifc::IfSort::Less,
                IfSort::Le => axs::ifc::IfSort::LessOrEqual,
                IfSort::Gt => axs::ifc::IfSort::Greater,
                IfSort::Ge => axs::ifc::IfSort::GreaterOrEqual,
            },
            fst: vid(fst),
            snd: snd.as_ref().map(vid),
            thenc: Rc::new(stmt(thenc)),
            elsec: Rc::new(stmt(elsec)),
        }
        .into(),
        Stmt::Exit { var } => axs::Exit { var: vid(var) }.into(),
    }
}

/// `noise` != 0: every variable occurrence gets a display name drawn from a stream seeded with it
pub fn to_axcut_noisy(p: &Prog, noise: u64) -> ax::Prog {
    NAME_NOISE.with(|c| c.set((noise, 0)));
    let r = to_axcut(p);
    NAME_NOISE.with(|c| c.set((0, 0)));
    r
}

pub fn to_axcut(p: &Prog) -> ax::Prog {
    ax::Prog {
        defs: p
            .defs
            .iter()
            .map(|d| ax::Def { name: id(&d.name), context: ctx(&d.params), body: stmt(&d.body) })
            .collect(),
        types: p
            .types
            .iter()
            .map(|t| ax::TypeDeclaration {
                name: id(&t.name),
                xtors: t
                    .xtors
                    .iter()
                    .map(|x| ax::XtorSig { name: id(&x.name), args: ctx(&x.args) })
                    .collect(),
            })
            .collect(),
        max_id: p.max_id,
    }
}

// ---------------------------------------------------------------------------------------------
// axcut -> mirror

fn rid(n: &ax::Identifier) -> Name {
    Name { n: n.name.clone(), i: n.id }
}
fn rchi(c: &ax::Chirality) -> Chi {
    match c {
        ax::Chirality::Prd => Chi::P,
        ax::Chirality::Cns => Chi::C,
        ax::Chirality::Ext => Chi::E,
    }
}
fn rty(t: &ax::Ty) -> Ty {
    match t {
        ax::Ty::I64 => Ty::I64,
        ax::Ty::Decl(n) => Ty::D(rid(n)),
    }
}
fn rbind(b: &ax::ContextBinding) -> Bind {
    Bind { v: rid(&b.var), chi: rchi(&b.chi), ty: rty(&b.ty) }
}
fn rctx(c: &ax::TypingContext) -> Vec<Bind> {
    c.bindings.iter().map(rbind).collect()
}
fn rclause(c: &axs::Clause) -> Clause {
    Clause { xtor: rid(&c.xtor), ctx: rctx(&c.context), body: Rc::new(rstmt(&c.body)) }
}

pub fn rstmt(s: &ax::Statement) -> Stmt {
    use ax::Statement as S;
    match s {
        S::Substitute(x) => Stmt::Subst {
            map: x.rearrange.iter().map(|(b, o)| (rbind(b), rid(o))).collect(),
            next: Rc::new(rstmt(&x.next)),
        },
        S::Call(x) => Stmt::Call { label: rid(&x.label), args: rctx(&x.args) },
        S::Let(x) => Stmt::Let {
            var: rid(&x.var),
            ty: rty(&x.ty),
            tag: rid(&x.tag),
            args: rctx(&x.args),
            next: Rc::new(rstmt(&x.next)),
        },
        S::Switch(x) => Stmt::Switch {
            var: rid(&x.var),
            ty: rty(&x.ty),
            clauses: x.clauses.iter().map(rclause).collect(),
        },
        S::Create(x) => Stmt::Create {
            var: rid(&x.var),
            ty: rty(&x.ty),
            env: x.context.as_ref().map(rctx).unwrap_or_default(),
            clauses: x.clauses.iter().map(rclause).collect(),
            next: Rc::new(rstmt(&x.next)),
        },
        S::Invoke(x) => Stmt::Invoke {
            var: rid(&x.var),
            tag: rid(&x.tag),
            ty: rty(&x.ty),
            args: rctx(&x.args),
        },
        S::Literal(x) => Stmt::Lit { lit: x.lit, var: rid(&x.var), next: Rc::new(rstmt(&x.next)) },
        S::Op(x) => Stmt::Op {
            fst: rid(&x.fst),
            op: match x.op {
                ax::BinOp::Div => BinOp::Div,
                ax::BinOp::Prod => BinOp::Prod,
                ax::BinOp::Rem => BinOp::Rem,
                ax::BinOp::Sum => BinOp::Sum,
                ax::BinOp::Sub => BinOp::Sub,
            },
            snd: rid(&x.snd),
            var: rid(&x.var),
            next: Rc::new(rstmt(&x.next)),
        },
        S::PrintI64(x) => {
            Stmt::Print { newline: x.newline, var: rid(&x.var), next: Rc::new(rstmt(&x.next)) }
        }
        S::IfC(x) => Stmt::If {
            sort: match x.sort {
                axs::ifc::IfSort::Equal => IfSort::Eq,
                axs::ifc::IfSort::NotEqual => IfSort::Ne,
                axs::ifc::IfSort::Less => IfSort::Lt,
                axs::ifc::IfSort::LessOrEqual => IfSort::Le,
                axs::ifc::IfSort::Greater => IfSort::Gt,
                axs::ifc::IfSort::GreaterOrEqual => IfSort::Ge,
            },
            fst: rid(&x.fst),
            snd: x.snd.as_ref().map(rid),
            thenc: Rc::new(rstmt(&x.thenc)),
            elsec: Rc::new(rstmt(&x.elsec)),
        },
        S::Exit(x) => Stmt::Exit { var: rid(&x.var) },
    }
}

pub fn from_axcut(p: &ax::Prog) -> Prog {
    Prog {
        types: p
            .types
            .iter()
            .map(|t| TyDecl {
                name: rid(&t.name),
                xtors: t.xtors.iter().map(|x| Xtor { name: rid(&x.name), args: rctx(&x.args) }).collect(),
            })
            .collect(),
        defs: p
            .defs
            .iter()
            .map(|d| Def { name: rid(&d.name), params: rctx(&d.context), body: Rc::new(rstmt(&d.body)) })
            .collect(),
        max_id: p.max_id,
    }
}

// ---------------------------------------------------------------------------------------------
// helpers

impl Prog {
    pub fn ty_decl(&self, t: &Ty) -> Option<&TyDecl> {
        match t {
            Ty::I64 => None,
            Ty::D(n) => self.types.iter().find(|d| d.name == *n),
        }
    }
    pub fn stmt_count(&self) -> usize {
        self.defs.iter().map(|d| d.body.size()).sum()
    }
}

impl Stmt {
    pub fn size(&self) -> usize {
        match self {
            Stmt::Subst { next, .. }
            | Stmt::Let { next, .. }
            | Stmt::Lit { next, .. }
            | Stmt::Op { next, .. }
            | Stmt::Print { next, .. } => 1 + next.size(),
            Stmt::Create { clauses, next, .. } => {
                1 + next.size() + clauses.iter().map(|c| c.body.size()).sum::<usize>()
            }
            Stmt::Switch { clauses, .. } => 1 + clauses.iter().map(|c| c.body.size()).sum::<usize>(),
            Stmt::If { thenc, elsec, .. } => 1 + thenc.size() + elsec.size(),
            Stmt::Call { .. } | Stmt::Invoke { .. } | Stmt::Exit { .. } => 1,
        }
    }
}
