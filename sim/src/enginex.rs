//! Engine X — whole-executable simulator (C01, C20). Fun source -> real front end, middle end and
//! x86-64 back end -> engine M's emulator; process start goes through the real generated C
//! driver (`main`), printing goes through the real `io.c`, both compiled by gcc from /repo's
//! working tree and loaded behind `write` / `calloc` / `free` / `asm_main` seams.

use crate::fungen::{self, FunCfg};
use crate::funref::{self, FunEnd};
use crate::mach::*;
use crate::orch::{verif_dir, repo_dir, known_match, load_known};
use crate::prng::{Rng, hash_str};
use crate::run::{benign_plan, hostile_plan};
use crate::{seam, x86};
use printer::Print;
use serde::{Deserialize, Serialize};
use std::collections::{BTreeMap, BTreeSet};
use std::ffi::{CString, c_char, c_int, c_void};
use std::io::{BufRead, BufReader, Write};
use std::process::{Command, Stdio};

// ---------------------------------------------------------------------------------------------
// the C runtime behind seams

type MainFn = unsafe extern "C" fn(c_int, *const *const c_char) -> c_int;
type PrintFn = unsafe extern "C" fn(i64);
type SetHooksFn = unsafe extern "C" fn(unsafe extern "C" fn(*mut c_void, *const i64, c_int) -> i64, unsafe extern "C" fn(c_int, *const c_void, usize) -> isize);
type LastCallocFn = unsafe extern "C" fn() -> u64;

/// one compiled runtime (driver for k parameters + io.c + shim); loaded afresh for every simulated
/// process and unloaded at its end, so that constructors, destructors and static state behave as
/// in a real process
pub struct Lib {
    so: CString,
}

pub struct Open {
    h: *mut c_void,
    pub main: MainFn,
    pub print_i64: PrintFn,
    pub println_i64: PrintFn,
    pub last_calloc: LastCallocFn,
    /// was the memory handed out as heap zero-filled (calloc, or malloc followed by memset)?
    pub heap_zeroed: unsafe extern "C" fn() -> c_int,
    /// handlers registered with atexit (simulated process end)
    pub run_atexit: unsafe extern "C" fn(),
}

impl Lib {
    /// start of a simulated process
    pub unsafe fn open(&self) -> Open {
        unsafe {
            let h = libc::dlopen(self.so.as_ptr(), libc::RTLD_NOW | libc::RTLD_LOCAL);
            assert!(!h.is_null(), "dlopen {:?} failed", self.so);
            let sym = |n: &str| -> *mut c_void {
                let c = CString::new(n).unwrap();
                let p = libc::dlsym(h, c.as_ptr());
                assert!(!p.is_null(), "symbol {n} missing");
                p
            };
            let set: SetHooksFn = std::mem::transmute(sym("sim_set_hooks"));
            set(asm_hook, write_hook);
            Open {
                h,
                main: std::mem::transmute::<*mut c_void, MainFn>(sym("sim_call_main")),
                print_i64: std::mem::transmute::<*mut c_void, PrintFn>(sym("print_i64")),
                println_i64: std::mem::transmute::<*mut c_void, PrintFn>(sym("println_i64")),
                last_calloc: std::mem::transmute::<*mut c_void, LastCallocFn>(sym("sim_last_calloc")),
                heap_zeroed: std::mem::transmute::<*mut c_void, unsafe extern "C" fn() -> c_int>(sym("sim_heap_zeroed")),
                run_atexit: std::mem::transmute::<*mut c_void, unsafe extern "C" fn()>(sym("sim_run_atexit")),
            }
        }
    }
}

impl Open {
    /// end of the simulated process: atexit handlers, then unloading (ELF destructors)
    pub unsafe fn close(self) {
        unsafe {
            (self.run_atexit)();
            libc::dlclose(self.h);
        }
    }
}

pub struct CRuntime {
    pub libs: Vec<Lib>,
    dir: String,
}

impl Drop for CRuntime {
    fn drop(&mut self) {
        let _ = std::fs::remove_dir_all(&self.dir);
    }
}

fn shim_text(k: usize) -> String {
    let params: String = (1..=k).map(|i| format!(", int64_t a{i}")).collect();
    let arr: String = (1..=k).map(|i| format!("a{i}")).collect::<Vec<_>>().join(", ");
    format!(
        r#"#include <stdint.h>
#include <stddef.h>
#include <sys/types.h>
typedef int64_t (*asm_hook_t)(void *heap, const int64_t *args, int n);
typedef ssize_t (*write_hook_t)(int fd, const void *buf, size_t n);
static asm_hook_t asm_hook;
static write_hook_t write_hook;
static uint64_t last_n, last_sz;
static char dummy_heap[128];
void sim_set_hooks(asm_hook_t a, write_hook_t w) {{ asm_hook = a; write_hook = w; }}
ssize_t sim_write(int fd, const void *buf, size_t n) {{ return write_hook(fd, buf, n); }}
/* the heap: never really allocated (the emulated routine has its own simulated memory); what is
   recorded is how many bytes were requested and whether they are zero-filled when asm_main starts */
static int heap_zeroed;
void *sim_calloc(size_t n, size_t sz) {{ last_n = n; last_sz = sz; heap_zeroed = 1; return dummy_heap; }}
void *sim_malloc(size_t n) {{ last_n = n; last_sz = 1; heap_zeroed = 0; return dummy_heap; }}
void *sim_memset(void *p, int c, size_t n) {{
  if (p == (void *)dummy_heap) {{ if (c == 0 && n >= last_n * last_sz) heap_zeroed = 1; return p; }}
  unsigned char *q = p; while (n--) *q++ = (unsigned char)c; return p;
}}
void sim_free(void *p) {{ (void)p; }}
uint64_t sim_last_calloc(void) {{ return last_n * last_sz; }}
int sim_heap_zeroed(void) {{ return heap_zeroed; }}
/* the C library's buffered output functions end at the same seam as write (a runtime that prints
   with printf or fputs instead of write is judged by the bytes it produces, in order) */
#include <stdio.h>
#include <stdarg.h>
#include <string.h>
static int fd_of(FILE *f) {{ return f == stderr ? 2 : 1; }}
static int vout(int fd, const char *fmt, va_list ap) {{
  char b[8192];
  int n = vsnprintf(b, sizeof b, fmt, ap);
  if (n > (int)sizeof b - 1) n = sizeof b - 1;
  if (n > 0) write_hook(fd, b, n);
  return n;
}}
int sim_printf(const char *fmt, ...) {{ va_list ap; va_start(ap, fmt); int n = vout(1, fmt, ap); va_end(ap); return n; }}
int sim_fprintf(FILE *f, const char *fmt, ...) {{ va_list ap; va_start(ap, fmt); int n = vout(fd_of(f), fmt, ap); va_end(ap); return n; }}
int sim_dprintf(int fd, const char *fmt, ...) {{ va_list ap; va_start(ap, fmt); int n = vout(fd, fmt, ap); va_end(ap); return n; }}
int sim_puts(const char *s) {{ write_hook(1, s, strlen(s)); write_hook(1, "\n", 1); return 1; }}
int sim_fputs(const char *s, FILE *f) {{ write_hook(fd_of(f), s, strlen(s)); return 1; }}
int sim_putchar(int c) {{ char ch = (char)c; write_hook(1, &ch, 1); return c; }}
int sim_fputc(int c, FILE *f) {{ char ch = (char)c; write_hook(fd_of(f), &ch, 1); return c; }}
size_t sim_fwrite(const void *p, size_t sz, size_t n, FILE *f) {{ if (sz * n > 0) write_hook(fd_of(f), p, sz * n); return n; }}
int sim_fflush(FILE *f) {{ (void)f; return 0; }}
/* process exit is simulated: handlers registered with atexit run when the driver's main returns or
   calls exit, while the job that started the "process" is still current */
#include <setjmp.h>
static void (*exit_handlers[32])(void);
static int n_exit_handlers;
static jmp_buf exit_jmp;
static int exit_code;
int sim_atexit(void (*f)(void)) {{ if (n_exit_handlers < 32) {{ exit_handlers[n_exit_handlers++] = f; return 0; }} return -1; }}
void sim_run_atexit(void) {{ while (n_exit_handlers > 0) exit_handlers[--n_exit_handlers](); }}
void sim_exit(int c) {{ sim_run_atexit(); exit_code = c; longjmp(exit_jmp, 1); }}
int scc_driver_main(int argc, char **argv);
int sim_call_main(int argc, char **argv) {{
  if (setjmp(exit_jmp) == 0) {{ int r = scc_driver_main(argc, argv); sim_run_atexit(); return r; }}
  return exit_code;
}}
int asm_main_shim(void *heap{params}) asm("asm_main");
int asm_main_shim(void *heap{params}) {{
  int64_t args[] = {{ 0{comma}{arr} }};
  return (int)asm_hook(heap, args + 1, {k});
}}
"#,
        comma = if k > 0 { ", " } else { "" }
    )
}

const UC_DEFS: &[&str] = &["-Dmain=scc_driver_main", "-Dwrite=sim_write", "-Dcalloc=sim_calloc", "-Dmalloc=sim_malloc", "-Dmemset=sim_memset", "-Dfree=sim_free", "-Datexit=sim_atexit", "-Dexit=sim_exit", "-Dprintf=sim_printf", "-Dfprintf=sim_fprintf", "-Ddprintf=sim_dprintf", "-Dputs=sim_puts", "-Dfputs=sim_fputs", "-Dputchar=sim_putchar", "-Dfputc=sim_fputc", "-Dputc=sim_fputc", "-Dfwrite=sim_fwrite", "-Dfflush=sim_fflush", "-U_FORTIFY_SOURCE"];

impl CRuntime {
    /// compile the real io.c and the real generated drivers for 0..=5 arguments
    pub fn build(tag: &str) -> Result<CRuntime, String> {
        let dir = format!("{}/work/x-{tag}-{}", verif_dir(), std::process::id());
        let _ = std::fs::remove_dir_all(&dir);
        std::fs::create_dir_all(&dir).map_err(|e| e.to_string())?;
        let old = std::env::current_dir().map_err(|e| e.to_string())?;
        std::env::set_current_dir(&dir).map_err(|e| e.to_string())?;
        let mut libs = Vec::new();
        let r = (|| -> Result<(), String> {
            std::fs::write("io.c", driver::IO_RUNTIME).map_err(|e| e.to_string())?;
            for k in 0..=5usize {
                // the real generator writes ./target_scc/infrastructure/driver<k>.c
                let path = driver::generate_c_driver(k, None);
                let drv = std::fs::read_to_string(&path).map_err(|e| format!("{path:?}: {e}"))?;
                std::fs::write(format!("driver{k}.c"), drv).map_err(|e| e.to_string())?;
                std::fs::write(format!("shim{k}.c"), shim_text(k)).map_err(|e| e.to_string())?;
                let run = |args: &[&str]| -> Result<(), String> {
                    let o = Command::new("gcc").args(args).output().map_err(|e| format!("gcc: {e}"))?;
                    if !o.status.success() {
                        return Err(format!("gcc {:?} failed: {}", args, String::from_utf8_lossy(&o.stderr)));
                    }
                    Ok(())
                };
                let defs = ["-Dmain=scc_driver_main", "-Dwrite=sim_write", "-Dcalloc=sim_calloc", "-Dmalloc=sim_malloc", "-Dmemset=sim_memset", "-Dfree=sim_free", "-Datexit=sim_atexit", "-Dexit=sim_exit", "-Dprintf=sim_printf", "-Dfprintf=sim_fprintf", "-Ddprintf=sim_dprintf", "-Dputs=sim_puts", "-Dfputs=sim_fputs", "-Dputchar=sim_putchar", "-Dfputc=sim_fputc", "-Dputc=sim_fputc", "-Dfwrite=sim_fwrite", "-Dfflush=sim_fflush", "-U_FORTIFY_SOURCE"];
                let mut a: Vec<String> = vec!["-fPIC".into(), "-O1".into(), "-w".into(), "-c".into(), format!("driver{k}.c"), "-o".into(), format!("driver{k}.o")];
                a.extend(defs.iter().map(|s| s.to_string()));
                run(&a.iter().map(|s| s.as_str()).collect::<Vec<_>>())?;
                let mut a: Vec<String> = vec!["-fPIC".into(), "-O1".into(), "-w".into(), "-c".into(), "io.c".into(), "-o".into(), format!("io{k}.o")];
                a.extend(defs.iter().map(|s| s.to_string()));
                run(&a.iter().map(|s| s.as_str()).collect::<Vec<_>>())?;
                run(&["-fPIC", "-O1", "-c", &format!("shim{k}.c"), "-o", &format!("shim{k}.o")])?;
                let so = format!("{dir}/libdrv{k}.so");
                run(&["-shared", "-o", &so, &format!("driver{k}.o"), &format!("io{k}.o"), &format!("shim{k}.o")])?;
                let lib = Lib { so: CString::new(so.clone()).unwrap() };
                // trial load: every symbol must be there
                unsafe {
                    let h = libc::dlopen(lib.so.as_ptr(), libc::RTLD_NOW | libc::RTLD_LOCAL);
                    if h.is_null() {
                        return Err(format!("dlopen {so} failed"));
                    }
                    for n in ["sim_set_hooks", "sim_call_main", "print_i64", "println_i64", "sim_last_calloc", "sim_heap_zeroed", "sim_run_atexit"] {
                        let c = CString::new(n).unwrap();
                        if libc::dlsym(h, c.as_ptr()).is_null() {
                            return Err(format!("symbol {n} missing in {so}"));
                        }
                    }
                    libc::dlclose(h);
                }
                libs.push(lib);
            }
            // io.c once more as the AArch64 ABI sees it (plain `char` is unsigned there); used by
            // half of the print-only runs and print streams
            {
                let run = |args: &[&str]| -> Result<(), String> {
                    let o = Command::new("gcc").args(args).output().map_err(|e| format!("gcc: {e}"))?;
                    if !o.status.success() {
                        return Err(format!("gcc {:?} failed: {}", args, String::from_utf8_lossy(&o.stderr)));
                    }
                    Ok(())
                };
                let mut a: Vec<String> = vec!["-fPIC".into(), "-O1".into(), "-w".into(), "-funsigned-char".into(), "-c".into(), "io.c".into(), "-o".into(), "io_uc.o".into()];
                a.extend(UC_DEFS.iter().map(|s| s.to_string()));
                run(&a.iter().map(|s| s.as_str()).collect::<Vec<_>>())?;
                let so = format!("{dir}/libdrv_uc.so");
                run(&["-shared", "-o", &so, "driver0.o", "io_uc.o", "shim0.o"])?;
                libs.push(Lib { so: CString::new(so).unwrap() });
            }
            Ok(())
        })();
        let _ = std::env::set_current_dir(old);
        if let Err(e) = r {
            let _ = std::fs::remove_dir_all(&dir);
            return Err(e);
        }
        Ok(CRuntime { libs, dir })
    }
}

/// state shared with the C callbacks (one job at a time, single-threaded workers)
struct Job {
    prog: Option<x86::Prog>,
    plan: EnvPlan,
    opts: ExecOpts,
    stdout: Vec<u8>,
    outcome: Option<ExecOutcome>,
    args_seen: Vec<i64>,
    asm_main_calls: u32,
    write_calls: u32,
    fds: BTreeSet<i32>,
    k: usize,
}

static mut JOB: *mut Job = std::ptr::null_mut();
/// P1 probe (never a verdict): the next `write` is short (half of the bytes) / interrupted (-1)
static mut P1_FAULT: u8 = 0;
static mut RT: *const CRuntime = std::ptr::null();
/// the runtime instance of the current simulated process
static mut CUR: *const Open = std::ptr::null();
/// worker mode: what to report if the process dies inside native code (the C driver or runtime under
/// test): a serialised XReplay of class `Crash`
static mut NATIVE_CTX: Option<String> = None;

fn native_enter() {
    unsafe {
        #[allow(static_mut_refs)]
        if let Some(c) = &NATIVE_CTX {
            let o = std::io::stdout();
            let mut o = o.lock();
            let _ = writeln!(o, "{{\"native\":{c}}}");
            let _ = o.flush();
        }
    }
}

fn native_leave() {
    unsafe {
        #[allow(static_mut_refs)]
        if NATIVE_CTX.is_some() {
            let o = std::io::stdout();
            let mut o = o.lock();
            let _ = writeln!(o, "{{\"native_done\":1}}");
            let _ = o.flush();
        }
    }
}

/// worker mode: describe the current run for the crash report
pub fn set_native_ctx(property: &str, seed: u64, run: u64, kind: &str, source: &str, argv: &[String]) {
    let rp = XReplay {
        engine: "X".into(),
        property: property.into(),
        class: "Crash".into(),
        message: "the process under test died (signal) inside the C driver or the print runtime".into(),
        verif_seed: seed,
        run,
        kind: kind.into(),
        source: source.into(),
        argv: argv.to_vec(),
        plan: EnvPlan::benign(),
        minimised: true,
        unique_twin: None,
        deshadowed_twin: None,
        expected: None,
    };
    unsafe {
        NATIVE_CTX = Some(serde_json::to_string(&rp).unwrap());
    }
}

unsafe extern "C" fn write_hook(fd: c_int, buf: *const c_void, n: usize) -> isize {
    unsafe {
        let j = &mut *JOB;
        j.write_calls += 1;
        j.fds.insert(fd);
        let s = std::slice::from_raw_parts(buf as *const u8, n);
        match P1_FAULT {
            1 if n > 1 => {
                P1_FAULT = 0;
                j.stdout.extend_from_slice(&s[..n / 2]);
                return (n / 2) as isize;
            }
            2 => {
                P1_FAULT = 0;
                return -1;
            }
            _ => {}
        }
        j.stdout.extend_from_slice(s);
        n as isize
    }
}

fn native_print(newline: bool, v: i64) {
    unsafe {
        let lib = &*CUR;
        if newline { (lib.println_i64)(v) } else { (lib.print_i64)(v) }
    }
}

unsafe extern "C" fn asm_hook(_heap: *mut c_void, args: *const i64, n: c_int) -> i64 {
    unsafe {
        let j = &mut *JOB;
        j.asm_main_calls += 1;
        let a: Vec<i64> = (0..n as usize).map(|i| *args.add(i)).collect();
        j.args_seen = a.clone();
        let Some(p) = j.prog.take() else { return 0 };
        let mut opts = j.opts.clone();
        opts.print_hook = Some(native_print);
        let plan = j.plan.clone();
        let (out, _) = x86::exec(&p, &a, &plan, &opts);
        let r = out.result.unwrap_or(0);
        j.outcome = Some(out);
        j.prog = Some(p);
        r
    }
}

pub struct ExeRun {
    pub stdout: Vec<u8>,
    pub status: i32,
    pub outcome: Option<ExecOutcome>,
    pub args_seen: Vec<i64>,
    pub asm_main_calls: u32,
    pub calloc_bytes: u64,
    pub heap_zeroed: bool,
    pub fds: BTreeSet<i32>,
}

/// run the whole executable: real driver main -> asm_main seam -> emulator -> real io.c
pub fn run_exe(rt: &CRuntime, prog: Option<x86::Prog>, k: usize, argv: &[String], plan: &EnvPlan, opts: &ExecOpts) -> ExeRun {
    let mut job = Job {
        prog,
        plan: plan.clone(),
        opts: opts.clone(),
        stdout: Vec::new(),
        outcome: None,
        args_seen: Vec::new(),
        asm_main_calls: 0,
        write_calls: 0,
        fds: BTreeSet::new(),
        k,
    };
    let cargs: Vec<CString> = std::iter::once("prog".to_string()).chain(argv.iter().cloned()).map(|s| CString::new(s).unwrap()).collect();
    let mut ptrs: Vec<*const c_char> = cargs.iter().map(|c| c.as_ptr()).collect();
    ptrs.push(std::ptr::null());
    let status;
    let calloc_bytes;
    let heap_zeroed;
    unsafe {
        JOB = &mut job;
        RT = rt;
        let o = rt.libs[k].open();
        CUR = &o;
        native_enter();
        status = (o.main)(cargs.len() as c_int, ptrs.as_ptr());
        native_leave();
        calloc_bytes = (o.last_calloc)();
        heap_zeroed = (o.heap_zeroed)() != 0;
        CUR = std::ptr::null();
        o.close();
        JOB = std::ptr::null_mut();
    }
    ExeRun { stdout: job.stdout, status: status & 0xff, outcome: job.outcome, args_seen: job.args_seen, asm_main_calls: job.asm_main_calls, calloc_bytes, heap_zeroed, fds: job.fds }
}

/// call the real print primitive directly through the write seam
pub fn run_print(rt: &CRuntime, newline: bool, v: i64) -> (Vec<u8>, u32, BTreeSet<i32>) {
    let mut job = Job {
        prog: None,
        plan: EnvPlan::benign(),
        opts: ExecOpts { step_budget: 0, check_heap: false, record_snaps: 0, print_hook: None },
        stdout: Vec::new(),
        outcome: None,
        args_seen: Vec::new(),
        asm_main_calls: 0,
        write_calls: 0,
        fds: BTreeSet::new(),
        k: 0,
    };
    unsafe {
        JOB = &mut job;
        RT = rt;
        // (index 6: io.c compiled with unsigned plain char)
        let o = rt.libs[if (v as u64 ^ newline as u64).count_ones() % 2 == 0 { 0 } else { 6 }].open();
        CUR = &o;
        native_enter();
        native_print(newline, v);
        CUR = std::ptr::null();
        o.close();
        native_leave();
        JOB = std::ptr::null_mut();
    }
    (job.stdout, job.write_calls, job.fds)
}

/// a whole sequence of print calls in one "process", then its end
pub fn run_print_stream(rt: &CRuntime, calls: &[(bool, i64)]) -> (Vec<u8>, BTreeSet<i32>) {
    let mut job = Job {
        prog: None,
        plan: EnvPlan::benign(),
        opts: ExecOpts { step_budget: 0, check_heap: false, record_snaps: 0, print_hook: None },
        stdout: Vec::new(),
        outcome: None,
        args_seen: Vec::new(),
        asm_main_calls: 0,
        write_calls: 0,
        fds: BTreeSet::new(),
        k: 0,
    };
    unsafe {
        JOB = &mut job;
        RT = rt;
        let o = rt.libs[if calls.len() % 2 == 0 { 0 } else { 6 }].open();
        CUR = &o;
        native_enter();
        for (nl, v) in calls {
            native_print(*nl, *v);
        }
        CUR = std::ptr::null();
        o.close();
        native_leave();
        JOB = std::ptr::null_mut();
    }
    (job.stdout, job.fds)
}

/// the calls of a print stream, a pure function of (seed, run)
pub fn print_stream_calls(seed: u64, run: u64) -> Vec<(bool, i64)> {
    let mut rng = Rng::keyed(seed, run, "x-print-stream");
    if rng.pct(35) {
        // boundary mode: text without a newline up to a few bytes short of a power of two (where a
        // buffer of that size would be full), then the longest possible line
        let size = 1usize << (6 + rng.below(9));
        let pending = size - rng.below(26);
        let mut calls = Vec::new();
        let mut len = 0;
        while len < pending {
            let left = pending - len;
            // a non-negative value with exactly `d` digits
            let d = if left <= 18 { left } else { 1 + rng.below(18) };
            let lo = if d == 1 { 0 } else { 10i64.pow(d as u32 - 1) };
            let hi = 10i64.pow(d as u32) - 1;
            calls.push((false, rng.range(lo, hi)));
            len += d;
        }
        calls.push((true, *rng.pick(&[i64::MIN, i64::MIN + 1, -1_000_000_000_000_000_000, -(i64::MAX), i64::MAX, 0])));
        calls.push((rng.pct(50), boundary(&mut rng)));
        return calls;
    }
    // long runs without a newline as well as mixed ones
    let newline_pct = *rng.pick(&[0u32, 0, 1, 10, 50]);
    let n = 1 + rng.below(if newline_pct == 0 { 700 } else { 300 });
    let wide = rng.pct(50);
    (0..n)
        .map(|_| {
            let v = if wide && rng.pct(40) { -(rng.range(1_000_000_000_000_000_000, i64::MAX)) } else { boundary(&mut rng) };
            (rng.pct(newline_pct), v)
        })
        .collect()
}

/// P1 probe: what the print primitives do when `write` is short or interrupted once.
/// Returns (runs, runs whose output was incomplete). Observation only: C20 has no I/O-fault quantifier.
pub fn probe_p1(rt: &CRuntime, rng: &mut Rng, n: u64) -> (u64, u64) {
    let mut incomplete = 0;
    for _ in 0..n {
        let v = boundary(rng);
        let newline = rng.pct(50);
        unsafe {
            P1_FAULT = 1 + (rng.below(2) as u8);
        }
        let (bytes, _, _) = run_print(rt, newline, v);
        unsafe {
            P1_FAULT = 0;
        }
        let mut want = v.to_string().into_bytes();
        if newline {
            want.push(b'\n');
        }
        if bytes != want {
            incomplete += 1;
        }
    }
    (n, incomplete)
}

// ---------------------------------------------------------------------------------------------
// front end + reference in a process instance

pub struct Front {
    pub reference: funref::FunOutcome,
    pub text: Result<String, String>,
    pub n_args: usize,
}

pub fn front(src: &str, args: &[i64], keys: u64, budget: u64, a64: bool) -> Result<Front, String> {
    let r = seam::in_instance(keys, || -> Result<Front, String> {
        let parsed = fun::parser::parse_module(src).map_err(|e| format!("parse error: {e:?}"))?;
        let checked = parsed.check().map_err(|e| format!("type error: {e:?}"))?;
        let n_args = checked.defs.iter().find(|d| d.name == "main").map(|d| d.context.bindings.len()).ok_or("no main")?;
        let reference = funref::run(&checked, args, budget);
        let text = std::panic::catch_unwind(std::panic::AssertUnwindSafe(|| {
            let compiled = fun2core::program::compile_prog(checked);
            let focused = compiled.focus();
            let shrunk = core2axcut::program::shrink_prog(focused);
            let mut linearized = shrunk;
            linearized.linearize();
            if a64 {
                let code = axcut2backend::coder::compile::<axcut2aarch64::Backend, _, _, _>(linearized);
                axcut2aarch64::into_routine::into_aarch64_routine(code).print_to_string(None)
            } else {
                let code = axcut2backend::coder::compile::<axcut2x86_64::Backend, _, _, _>(linearized);
                axcut2x86_64::into_routine::into_x86_64_routine(code).print_to_string(None)
            }
        }))
        .map_err(|e| seam::panic_msg(&e));
        Ok(Front { reference, text, n_args })
    });
    match r {
        Ok(x) => x,
        Err(p) => Err(format!("PANIC in front end: {p}")),
    }
}

#[derive(Serialize, Deserialize, Clone, Debug)]
pub struct XReplay {
    pub engine: String,
    pub property: String,
    pub class: String,
    pub message: String,
    pub verif_seed: u64,
    pub run: u64,
    pub kind: String,
    pub source: String,
    pub argv: Vec<String>,
    pub plan: EnvPlan,
    pub minimised: bool,
    /// alpha-renamed twin without shadowing (same meaning by lexical scoping), if any
    #[serde(default)]
    pub unique_twin: Option<String>,
    /// the shadowed spelling without user-level shadowing (pool names kept), if any
    #[serde(default)]
    pub deshadowed_twin: Option<String>,
    /// outcome of the generator-side reference (stdout, end) for generated programs
    #[serde(default)]
    pub expected: Option<Expected>,
}

/// what the generator-side reference machine (`genref`, run on the generated tree, independent of
/// the repository's parser and checker) computed for a generated program
#[derive(Serialize, Deserialize, Clone, Debug, PartialEq, Eq)]
pub struct Expected {
    pub stdout: String,
    pub end: String,
}

impl Expected {
    pub fn of(o: &funref::FunOutcome) -> Option<Expected> {
        match &o.end {
            FunEnd::Budget => None,
            e => Some(Expected { stdout: String::from_utf8_lossy(&o.stdout).to_string(), end: format!("{e:?}") }),
        }
    }
}

#[derive(Clone, Debug, Default, Serialize, Deserialize)]
pub struct XStats {
    pub runs: u64,
    pub executions: u64,
    pub discarded: BTreeMap<String, u64>,
    pub notes: BTreeMap<String, u64>,
    pub instructions: u64,
    pub markers: u64,
    pub heap_checks: u64,
    pub prints: u64,
    pub stdout_bytes: u64,
    pub faults: FaultCounts,
    pub with_shadowing: u64,
    pub probes: BTreeMap<String, u64>,
    pub ref_steps: u64,
    pub native_print_calls: u64,
    pub driver_main_calls: u64,
}

impl XStats {
    pub fn merge(&mut self, o: &XStats) {
        self.runs += o.runs;
        self.executions += o.executions;
        for (k, v) in &o.discarded {
            *self.discarded.entry(k.clone()).or_default() += v;
        }
        for (k, v) in &o.notes {
            *self.notes.entry(k.clone()).or_default() += v;
        }
        self.instructions += o.instructions;
        self.markers += o.markers;
        self.heap_checks += o.heap_checks;
        self.prints += o.prints;
        self.stdout_bytes += o.stdout_bytes;
        self.faults.add(&o.faults);
        self.with_shadowing += o.with_shadowing;
        for (k, v) in &o.probes {
            *self.probes.entry(k.clone()).or_default() += v;
        }
        self.ref_steps += o.ref_steps;
        self.native_print_calls += o.native_print_calls;
        self.driver_main_calls += o.driver_main_calls;
    }
    fn discard(&mut self, w: &str) {
        *self.discarded.entry(w.into()).or_default() += 1;
    }
}

pub enum Verdict {
    Ok,
    Discard(String),
    Note(String),
    Harness(String),
    /// (class, message)
    Viol(String, String),
}

/// one whole-executable run of `src` with decimal `argv` under `plan`
pub fn run_source(rt: &CRuntime, src: &str, argv: &[String], plan: &EnvPlan, keys: u64, stats: &mut XStats, check_heap: bool, expected: Option<&Expected>) -> Verdict {
    // the source semantics sees the mathematically intended integers
    let mut args = Vec::new();
    for a in argv {
        match a.parse::<i64>() {
            Ok(v) => args.push(v),
            Err(_) => return Verdict::Harness(format!("argv `{a}` is not a decimal i64")),
        }
    }
    let f = match front(src, &args, keys, 300_000, false) {
        Ok(f) => f,
        Err(e) => {
            if e.starts_with("PANIC") {
                return Verdict::Note(format!("pipeline failure: {}", e.chars().take(100).collect::<String>()));
            }
            return Verdict::Discard(format!("rejected by the front end: {}", e.chars().take(40).collect::<String>()));
        }
    };
    stats.ref_steps += f.reference.steps;
    // the parsed and checked program must mean what the generator wrote
    if let (Some(want), Some(got)) = (expected, Expected::of(&f.reference)) {
        *stats.probes.entry("generator-side reference compared".into()).or_default() += 1;
        if *want != got {
            return Verdict::Viol(
                "FrontEnd".into(),
                format!(
                    "the program as parsed and checked means something else than the program as written: the source semantics of the written tree gives output {:?} and {}, the checked AST gives output {:?} and {}",
                    want.stdout, want.end, got.stdout, got.end
                ),
            );
        }
    }
    let rv = match &f.reference.end {
        FunEnd::Done(v) => *v,
        FunEnd::Undefined(_) => return Verdict::Discard("reference undefined (division)".into()),
        FunEnd::Budget => return Verdict::Discard("reference step budget".into()),
        FunEnd::Stuck(m) => return Verdict::Harness(format!("reference machine stuck on a checked program: {m}")),
    };
    if f.n_args != args.len() {
        return Verdict::Discard("argument count".into());
    }
    if f.n_args > 5 {
        return Verdict::Discard("more than five parameters".into());
    }
    let text = match f.text {
        Ok(t) => t,
        Err(m) => {
            if m.contains("Out of temporaries") || m.contains("too many arguments") {
                return Verdict::Discard("backend capacity".into());
            }
            return Verdict::Note(format!("pipeline failure: {}", m.chars().take(100).collect::<String>()));
        }
    };
    let prog = match x86::load(&text, plan.code_base) {
        Ok(p) => p,
        Err(LoadErr::Text(v)) => return Verdict::Viol("Text".into(), format!("text not executable: {}", v.msg)),
        Err(LoadErr::Harness(m)) => return Verdict::Harness(format!("x86 loader: {m}")),
    };
    let opts = ExecOpts { step_budget: (400 * f.reference.steps + 100_000).min(60_000_000), check_heap, record_snaps: 0, print_hook: None };
    let r = run_exe(rt, Some(prog), f.n_args, argv, plan, &opts);
    stats.executions += 1;
    stats.driver_main_calls += 1;
    stats.stdout_bytes += r.stdout.len() as u64;
    if let Some(o) = &r.outcome {
        stats.instructions += o.steps;
        stats.markers += o.markers;
        stats.heap_checks += o.heap_checks;
        stats.prints += o.calls.len() as u64;
        stats.native_print_calls += o.calls.len() as u64;
        stats.faults.add(&o.faults);
        for (k, v) in &o.probes {
            *stats.probes.entry(k.clone()).or_default() += v;
        }
        if let Some(v) = &o.viol {
            if v.class == Class::Capacity {
                return Verdict::Discard("simulated heap capacity exceeded".into());
            }
            return Verdict::Viol(format!("{:?}", v.class), v.msg.clone());
        }
        if let Some(v) = o.soft.first() {
            return Verdict::Viol(format!("{:?}", v.class), v.msg.clone());
        }
    }
    if r.asm_main_calls == 1 && !r.heap_zeroed {
        return Verdict::Viol("Driver".into(), "the driver hands the routine a heap that is not zero-filled".into());
    }
    if r.asm_main_calls != 1 {
        return Verdict::Viol("Driver".into(), format!("the driver called asm_main {} times", r.asm_main_calls));
    }
    if r.stdout != f.reference.stdout {
        let exp = String::from_utf8_lossy(&f.reference.stdout).chars().take(120).collect::<String>();
        let got = String::from_utf8_lossy(&r.stdout).chars().take(120).collect::<String>();
        return Verdict::Viol("Output".into(), format!("standard output differs from the source semantics: expected {exp:?}, got {got:?}"));
    }
    let want = (rv & 0xff) as i32;
    if r.status != want {
        return Verdict::Viol("Status".into(), format!("exit status {} but the source semantics gives {} mod 256 = {}", r.status, rv, want));
    }
    if r.fds.iter().any(|fd| *fd != 1) {
        return Verdict::Viol("Output".into(), format!("output written to file descriptors {:?}", r.fds));
    }
    Verdict::Ok
}

/// C20 on AArch64: the emitted text runs on the AArch64 emulator with a stub driver (X0 = heap,
/// X1.. = the arguments as 64-bit integers); prints are recorded by the stub runtime
pub fn run_source_a64(src: &str, args: &[i64], plan: &EnvPlan, keys: u64, stats: &mut XStats) -> Verdict {
    let f = match front(src, args, keys, 300_000, true) {
        Ok(f) => f,
        Err(e) => {
            if e.starts_with("PANIC") {
                return Verdict::Note(format!("pipeline failure: {}", e.chars().take(100).collect::<String>()));
            }
            return Verdict::Discard(format!("rejected by the front end: {}", e.chars().take(40).collect::<String>()));
        }
    };
    let rv = match &f.reference.end {
        FunEnd::Done(v) => *v,
        FunEnd::Undefined(_) => return Verdict::Discard("reference undefined (division)".into()),
        FunEnd::Budget => return Verdict::Discard("reference step budget".into()),
        FunEnd::Stuck(m) => return Verdict::Harness(format!("reference machine stuck on a checked program: {m}")),
    };
    if f.n_args != args.len() || f.n_args > 7 {
        return Verdict::Discard("argument count".into());
    }
    let text = match f.text {
        Ok(t) => t,
        Err(m) => {
            if m.contains("Out of temporaries") || m.contains("too many arguments") {
                return Verdict::Discard("backend capacity".into());
            }
            return Verdict::Note(format!("pipeline failure: {}", m.chars().take(100).collect::<String>()));
        }
    };
    let prog = match crate::a64::load(&text, plan.code_base) {
        Ok(p) => p,
        Err(LoadErr::Text(v)) => return Verdict::Viol("Text".into(), format!("aarch64 text not executable: {}", v.msg)),
        Err(LoadErr::Harness(m)) => return Verdict::Harness(format!("aarch64 loader: {m}")),
    };
    let opts = ExecOpts { step_budget: (400 * f.reference.steps + 100_000).min(60_000_000), check_heap: true, record_snaps: 0, print_hook: None };
    let (o, _) = crate::a64::exec(&prog, args, plan, &opts);
    stats.executions += 1;
    stats.instructions += o.steps;
    stats.markers += o.markers;
    stats.prints += o.calls.len() as u64;
    stats.faults.add(&o.faults);
    if let Some(v) = &o.viol {
        if v.class == Class::Capacity {
            return Verdict::Discard("simulated heap capacity exceeded".into());
        }
        return Verdict::Viol(format!("{:?}", v.class), format!("aarch64: {}", v.msg));
    }
    if let Some(v) = o.soft.first() {
        return Verdict::Viol(format!("{:?}", v.class), format!("aarch64: {}", v.msg));
    }
    let same = o.calls.len() == f.reference.prints.len() && o.calls.iter().zip(&f.reference.prints).all(|(a, b)| a.newline == b.0 && a.arg == b.1);
    if !same {
        return Verdict::Viol("Args".into(), format!("aarch64: print calls {:?} differ from the source semantics {:?} for arguments {:?}", o.calls.iter().map(|c| c.arg).collect::<Vec<_>>(), f.reference.prints.iter().map(|c| c.1).collect::<Vec<_>>(), args));
    }
    if o.result.map(|r| r & 0xff) != Some(rv & 0xff) {
        return Verdict::Viol("Status".into(), format!("aarch64: result {:?} but the source semantics gives {rv}", o.result));
    }
    Verdict::Ok
}

// ---------------------------------------------------------------------------------------------
// workloads

pub fn corpus_with_args() -> Vec<(String, String, Vec<String>)> {
    let mut v = Vec::new();
    for (path, src) in crate::enginek::corpus() {
        if path.contains("/benchmarks/") {
            continue;
        }
        let args_path = path.trim_end_matches(".sc").to_string() + ".args";
        let mut args = Vec::new();
        if let Ok(a) = std::fs::read_to_string(&args_path) {
            if let Some(l) = a.lines().find(|l| l.trim_start().starts_with("test_args")) {
                if let (Some(i), Some(j)) = (l.find('['), l.rfind(']')) {
                    for tok in l[i + 1..j].split(',') {
                        let t = tok.trim().trim_matches('"');
                        if !t.is_empty() {
                            args.push(t.to_string());
                        }
                    }
                }
            }
        }
        v.push((path, src, args));
    }
    v
}

fn c20_program(rng: &mut Rng) -> (String, Vec<String>) {
    let k = rng.below(8);
    let names: Vec<String> = (1..=k).map(|i| format!("a{i}")).collect();
    let params = names.iter().map(|n| format!("{n}: i64")).collect::<Vec<_>>().join(", ");
    let mut body = String::new();
    let mut order: Vec<usize> = (0..k).collect();
    if rng.pct(40) {
        rng.shuffle(&mut order);
    }
    // a third of the programs start with a non-tail conditional (or match): the rest of main is
    // then a shared continuation that the translation lifts to a definition of its own, and main
    // must still be the routine that receives the arguments
    let mut prelude = String::new();
    let mut shared = false;
    if rng.pct(33) {
        shared = true;
        let c = if k > 0 { names[rng.below(k)].clone() } else { "0".to_string() };
        if rng.pct(50) {
            body.push_str(&format!("  let r0: i64 = (if ({c}) == 0 {{ 1 }} else {{ 2 }});\n"));
        } else {
            prelude.push_str("data Flag { Off, On }\n");
            body.push_str(&format!("  let f0: Flag = (if ({c}) < 0 {{ Off }} else {{ On }});\n  let r0: i64 = (f0).case {{ Off => 1, On => 2 }};\n"));
        }
    }
    for i in &order {
        body.push_str(&format!("  {}({});\n", if rng.pct(50) { "println_i64" } else { "print_i64" }, names[*i]));
        if rng.pct(50) {
            body.push_str("  println_i64(0);\n");
        }
    }
    let ret = match rng.below(4) {
        0 if k > 0 => names[rng.below(k)].clone(),
        1 => fungen_lit(boundary(rng)),
        _ => rng.range(0, 1000).to_string(),
    };
    if shared {
        body.push_str("  print_i64(r0);\n");
    }
    let src = format!("{prelude}def main({params}): i64 {{\n{body}  {ret}\n}}\n");
    // decimal renderings: canonical, with leading zeros, with an explicit plus sign
    let argv = (0..k)
        .map(|_| {
            let v = boundary(rng);
            match rng.below(10) {
                0 => {
                    let zeros = "0".repeat(1 + rng.below(3));
                    if v < 0 { format!("-{zeros}{}", v.unsigned_abs()) } else { format!("{zeros}{v}") }
                }
                1 if v >= 0 => format!("+{v}"),
                _ => v.to_string(),
            }
        })
        .collect();
    (src, argv)
}

fn fungen_lit(v: i64) -> String {
    if v == i64::MIN {
        "((-9223372036854775807) - 1)".into()
    } else if v < 0 {
        format!("(-{})", v.unsigned_abs())
    } else {
        v.to_string()
    }
}

pub fn boundary(rng: &mut Rng) -> i64 {
    match rng.below(8) {
        0 => *rng.pick(&[0i64, 1, -1, i64::MAX, i64::MIN, i64::MIN + 1, i64::MAX - 1, 255, 256, -256, 257]),
        1 => {
            let p = 10i64.pow(rng.below(19) as u32);
            p * *rng.pick(&[1i64, -1]) + rng.range(-1, 1)
        }
        2 => {
            let p = 1i64 << rng.below(63);
            p.wrapping_mul(*rng.pick(&[1i64, -1])).wrapping_add(rng.range(-1, 1))
        }
        3 => rng.next() as i64,
        4 => *rng.pick(&[2147483647i64, 2147483648, -2147483648, -2147483649, 4294967295, 4294967296, -4294967296]),
        _ => rng.range(-1000, 1000),
    }
}

/// Build one driver text behind the seams and probe it: Ok(None) = behaves like a driver for `k`
/// parameters with `heap_mb` megabytes of heap.
fn probe_driver(dir: &str, step: usize, k: usize, text: &str, heap_mb: u64) -> Result<Option<String>, String> {
    let c = format!("{dir}/probe{step}.c");
    let sh = format!("{dir}/probe{step}_shim.c");
    let so = format!("{dir}/libprobe{step}.so");
    std::fs::write(&c, text).map_err(|e| e.to_string())?;
    std::fs::write(&sh, shim_text(k)).map_err(|e| e.to_string())?;
    let run = |args: &[&str]| -> Result<bool, String> {
        let o = Command::new("gcc").args(args).output().map_err(|e| format!("gcc: {e}"))?;
        Ok(o.status.success())
    };
    let co = format!("{dir}/probe{step}.o");
    let sho = format!("{dir}/probe{step}_shim.o");
    if !run(&["-fPIC", "-O1", "-w", "-c", &c, "-o", &co, "-Dmain=scc_driver_main", "-Dwrite=sim_write", "-Dcalloc=sim_calloc", "-Dmalloc=sim_malloc", "-Dmemset=sim_memset", "-Dfree=sim_free", "-Datexit=sim_atexit", "-Dexit=sim_exit", "-Dprintf=sim_printf", "-Dfprintf=sim_fprintf", "-Ddprintf=sim_dprintf", "-Dputs=sim_puts", "-Dfputs=sim_fputs", "-Dputchar=sim_putchar", "-Dfputc=sim_fputc", "-Dputc=sim_fputc", "-Dfwrite=sim_fwrite", "-Dfflush=sim_fflush", "-U_FORTIFY_SOURCE"])? {
        return Ok(Some("does not compile".into()));
    }
    if !run(&["-fPIC", "-O1", "-c", &sh, "-o", &sho])? {
        return Err("shim does not compile".into());
    }
    if !run(&["-shared", "-o", &so, &co, &sho])? {
        // a driver for another arity declares asm_main with a different prototype than the shim defines
        return Ok(Some("does not link against an asm_main with this number of parameters".into()));
    }
    unsafe {
        let cso = CString::new(so.clone()).unwrap();
        let h = libc::dlopen(cso.as_ptr(), libc::RTLD_NOW | libc::RTLD_LOCAL);
        if h.is_null() {
            // (e.g. no `main` in the text that was handed out: the shim's reference stays undefined)
            return Ok(Some("cannot be loaded: the text handed out is not a complete driver".into()));
        }
        let sym = |n: &str| -> *mut c_void {
            let c = CString::new(n).unwrap();
            libc::dlsym(h, c.as_ptr())
        };
        let (set, main, lc) = (sym("sim_set_hooks"), sym("sim_call_main"), sym("sim_last_calloc"));
        if set.is_null() || main.is_null() || lc.is_null() {
            return Err("probe symbols missing".into());
        }
        let set: SetHooksFn = std::mem::transmute(set);
        set(asm_hook, write_hook);
        let main: MainFn = std::mem::transmute::<*mut c_void, MainFn>(main);
        let last_calloc: LastCallocFn = std::mem::transmute::<*mut c_void, LastCallocFn>(lc);
        let hz = sym("sim_heap_zeroed");
        if hz.is_null() {
            return Err("probe symbols missing".into());
        }
        let hz: unsafe extern "C" fn() -> c_int = std::mem::transmute(hz);
        let zeroed = || hz() != 0;
        let probe = |argv: &[String]| -> (i32, u32, Vec<i64>, Vec<u8>) {
            let mut job = Job {
                prog: None,
                plan: EnvPlan::benign(),
                opts: ExecOpts { step_budget: 0, check_heap: false, record_snaps: 0, print_hook: None },
                stdout: Vec::new(),
                outcome: None,
                args_seen: Vec::new(),
                asm_main_calls: 0,
                write_calls: 0,
                fds: BTreeSet::new(),
                k,
            };
            let cargs: Vec<CString> = std::iter::once("prog".to_string()).chain(argv.iter().cloned()).map(|s| CString::new(s).unwrap()).collect();
            let mut ptrs: Vec<*const c_char> = cargs.iter().map(|c| c.as_ptr()).collect();
            ptrs.push(std::ptr::null());
            JOB = &mut job;
            native_enter();
            let st = main(cargs.len() as c_int, ptrs.as_ptr());
            native_leave();
            JOB = std::ptr::null_mut();
            (st & 0xff, job.asm_main_calls, job.args_seen, job.stdout)
        };
        let good: Vec<String> = (0..k).map(|i| format!("{}", 1000 + i as i64 * 7)).collect();
        let (_, calls, seen, _) = probe(&good);
        let want: Vec<i64> = (0..k).map(|i| 1000 + i as i64 * 7).collect();
        let r = if calls != 1 || seen != want {
            Some(format!("called asm_main {calls} time(s) with {seen:?} for the arguments {want:?}"))
        } else if last_calloc() != heap_mb * 1024 * 1024 {
            Some(format!("requested {} bytes of heap instead of {} MiB", last_calloc(), heap_mb))
        } else if !zeroed() {
            Some("hands the routine a heap that is not zero-filled".to_string())
        } else {
            let mut more = good.clone();
            more.push("5".into());
            let (st, calls2, _, out) = probe(&more);
            if calls2 != 0 || st == 0 || !String::from_utf8_lossy(&out).contains("wrong number of arguments") {
                Some(format!("did not reject {} argument(s): asm_main called {calls2} time(s), status {st}", k + 1))
            } else {
                None
            }
        };
        libc::dlclose(h);
        Ok(r)
    }
}

/// C20, file-system history: the real `generate_c_driver` skips writing a driver that already
/// exists in ./target_scc, so what an earlier compilation left there must never be handed to a
/// later program with a different number of parameters. Returns a description of the first
/// driver whose text does not fit the requested arity.
pub fn driver_history(rng: &mut Rng, tag: &str) -> Result<(u64, Option<String>), String> {
    let dir = format!("{}/work/dh-{tag}-{}", verif_dir(), std::process::id());
    let _ = std::fs::remove_dir_all(&dir);
    std::fs::create_dir_all(&dir).map_err(|e| e.to_string())?;
    let old = std::env::current_dir().map_err(|e| e.to_string())?;
    std::env::set_current_dir(&dir).map_err(|e| e.to_string())?;
    // (3000 MiB does not fit 32-bit arithmetic; the allocation itself is behind the seam)
    let heaps = [None, Some(8usize), Some(64usize), Some(3000usize)];
    let mut bad = None;
    let steps = 3 + rng.below(5) as u64;
    let mut hist = Vec::new();
    for _ in 0..steps {
        let k = rng.below(6);
        let h = heaps[rng.below(4)];
        hist.push(format!("({k}, {h:?})"));
        let path = driver::generate_c_driver(k, h);
        let text = std::fs::read_to_string(&path).unwrap_or_default();
        // functional check of the driver that was handed out: built behind the seams, it must
        // pass exactly k decimal arguments on, reject k+1 arguments, and request the heap size
        let step = hist.len();
        let verdict = probe_driver(&dir, step, k, &text, h.unwrap_or(32) as u64)?;
        if let Some(why) = verdict {
            bad = Some(format!(
                "after the driver generation history {} the driver handed out for {k} parameter(s) and heap size {h:?} ({}) {why}",
                hist.join(", "),
                path.display()
            ));
            break;
        }
    }
    let _ = std::env::set_current_dir(old);
    let _ = std::fs::remove_dir_all(&dir);
    Ok((steps, bad))
}

#[derive(Serialize, Deserialize, Clone, Debug, Default)]
pub struct XSummary {
    pub stats: XStats,
    pub hashes: Vec<u64>,
    pub samples: Vec<serde_json::Value>,
    pub harness: Option<String>,
}

fn runs_for(id: &str, tier: &str) -> u64 {
    match (id, tier) {
        ("C01", "thorough") => 400_000,
        ("C01", _) => 10_000,
        ("C20", "thorough") => 400_000,
        _ => 12_000,
    }
}

/// diagnostic only (VERIF_SLOW=<ms>): report runs that take long, on stderr
struct SlowGuard(u64, std::time::Instant, std::cell::RefCell<String>);
impl Drop for SlowGuard {
    fn drop(&mut self) {
        if let Some(ms) = std::env::var("VERIF_SLOW").ok().and_then(|s| s.parse::<u128>().ok()) {
            let d = self.1.elapsed().as_millis();
            if d >= ms {
                eprintln!("slow run {} took {} ms: {}", self.0, d, self.2.borrow());
            }
        }
    }
}

pub fn xworker(id: &str, tier: &str, seed: u64, w: u64, n: u64) -> i32 {
    let rt = match CRuntime::build(&format!("{id}-{w}")) {
        Ok(r) => r,
        Err(e) => {
            println!("{}", serde_json::to_string(&serde_json::json!({"summary": XSummary { harness: Some(format!("building the C runtime failed: {e}")), ..Default::default() }})).unwrap());
            return 2;
        }
    };
    let total = runs_for(id, tier);
    let corpus = corpus_with_args();
    let mut sum = XSummary::default();
    let mut seen: BTreeSet<u64> = BTreeSet::new();
    let stdout = std::io::stdout();
    let emit = |v: serde_json::Value| {
        let mut o = stdout.lock();
        let _ = writeln!(o, "{}", serde_json::to_string(&v).unwrap());
    };
    let mut i = crate::orch::worker_start(w);
    while i < total {
        crate::orch::announce(i);
        let t_run = std::time::Instant::now();
        let _slow = SlowGuard(i, t_run, std::cell::RefCell::new(String::new()));
        let mut rng = Rng::keyed(seed, i, "x-workload");
        let keys = Rng::keyed(seed, i, "hashkeys").next() | 1;
        let mut prng = Rng::keyed(seed, i, "x-plans");
        sum.stats.runs += 1;
        // driver histories cost several gcc runs each: spread them over the workers by a hash of
        // the run number (a function of the run alone, so the worker count does not matter)
        let dh_every = if tier == "thorough" { 256 } else { 64 };
        set_native_ctx(id, seed, i, "unit", "", &[]);
        if id == "C20" && Rng::keyed(0, i, "dh-slot").next() % dh_every == 5 {
            set_native_ctx(id, seed, i, "driver-history", "", &[]);
            match driver_history(&mut rng, &format!("{w}")) {
                Ok((steps, None)) => {
                    sum.stats.executions += steps;
                    seen.insert(hash_str(&format!("dh{i}")));
                }
                Ok((_, Some(msg))) => {
                    let rp = XReplay {
                        engine: "X".into(),
                        property: "C20".into(),
                        class: "DriverHistory".into(),
                        message: msg,
                        verif_seed: seed,
                        run: i,
                        kind: "driver-history".into(),
                        source: String::new(),
                        argv: vec![],
                        plan: EnvPlan::benign(),
                        minimised: true,
                        unique_twin: None,
                        deshadowed_twin: None,
                        expected: None,
                    };
                    emit(serde_json::json!({"found": rp}));
                }
                Err(e) => {
                    sum.harness = Some(format!("run {i}: driver history: {e}"));
                    emit(serde_json::json!({"summary": sum}));
                    return 2;
                }
            }
            i += n;
            continue;
        }
        if id == "C20" && Rng::keyed(0, i, "stream-slot").next() % 16 == 3 {
            // (a') a whole stream of print calls in one process (runtime state that survives from
            // one call to the next, e.g. buffering, must not change what is written)
            let calls = print_stream_calls(seed, i);
            set_native_ctx(id, seed, i, "print-stream", "", &[]);
            let (bytes, fds) = run_print_stream(&rt, &calls);
            sum.stats.executions += 1;
            sum.stats.native_print_calls += calls.len() as u64;
            sum.stats.stdout_bytes += bytes.len() as u64;
            *sum.stats.probes.entry("print streams".into()).or_default() += 1;
            let mut want = Vec::new();
            for (nl, v) in &calls {
                funref::render_i64(&mut want, *nl, *v);
            }
            seen.insert(hash_str(&format!("stream{i}")));
            if bytes != want || fds.iter().any(|f| *f != 1) {
                let at = bytes.iter().zip(want.iter()).position(|(a, b)| a != b).unwrap_or(bytes.len().min(want.len()));
                let rp = XReplay {
                    engine: "X".into(),
                    property: "C20".into(),
                    class: "Print".into(),
                    message: format!("a stream of {} print calls wrote {} bytes to fds {fds:?}, expected {} bytes; first difference at byte {at}", calls.len(), bytes.len(), want.len()),
                    verif_seed: seed,
                    run: i,
                    kind: "print-stream".into(),
                    source: String::new(),
                    argv: vec![],
                    plan: EnvPlan::benign(),
                    minimised: true,
                    unique_twin: None,
                    deshadowed_twin: None,
                    expected: None,
                };
                emit(serde_json::json!({"found": rp}));
            }
            i += n;
            continue;
        }
        if id == "C20" && i % 2 == 0 {
            // (a) the print primitives alone
            let v = boundary(&mut rng);
            let newline = rng.pct(50);
            set_native_ctx(id, seed, i, "print", "", &[v.to_string(), newline.to_string()]);
            let (bytes, writes, fds) = run_print(&rt, newline, v);
            sum.stats.executions += 1;
            sum.stats.native_print_calls += 1;
            sum.stats.stdout_bytes += bytes.len() as u64;
            let mut want = v.to_string().into_bytes();
            if newline {
                want.push(b'\n');
            }
            seen.insert(hash_str(&format!("print{v}{newline}")));
            if bytes != want || fds.iter().any(|f| *f != 1) {
                let rp = XReplay {
                    engine: "X".into(),
                    property: "C20".into(),
                    class: "Print".into(),
                    message: format!("{}({v}) wrote {:?} in {writes} write call(s) to fds {fds:?}, expected {:?}", if newline { "println_i64" } else { "print_i64" }, String::from_utf8_lossy(&bytes), String::from_utf8_lossy(&want)),
                    verif_seed: seed,
                    run: i,
                    kind: "print".into(),
                    source: String::new(),
                    argv: vec![v.to_string(), newline.to_string()],
                    plan: EnvPlan::benign(),
                    minimised: true,
                    unique_twin: None,
                    deshadowed_twin: None,
                        expected: None,
                };
                emit(serde_json::json!({"found": rp}));
            }
            i += n;
            continue;
        }
        // choose the program
        let mut desh: Option<String> = None;
        let mut expected: Option<Expected> = None;
        let (kind, src, twin, argv, shadow): (String, String, Option<String>, Vec<String>, bool) = if id == "C20" {
            let (s, a) = c20_program(&mut rng);
            ("c20-args".into(), s, None, a, false)
        } else if (i as usize) < corpus.len() {
            let (p, s, a) = &corpus[i as usize];
            (format!("corpus:{p}"), s.clone(), None, a.clone(), false)
        } else if Rng::keyed(0, i, "template-slot").next() % (if tier == "thorough" { 40 } else { 12 }) == 7 {
            // (slot chosen by a hash of the run number: template runs are heap-heavy and must not
            // all land on the same workers)
            let (k, s, a) = crate::funtemplates::pick(&mut rng);
            (k, s, None, a, false)
        } else {
            let cfg = FunCfg::swarm(&mut rng, if tier == "thorough" { 120 } else { 60 });
            let p = fungen::generate(&mut rng, &cfg);
            let argv = p.args.iter().map(|a| a.to_string()).collect();
            let g = crate::genref::run(&p.tree, &p.args, 300_000);
            if let FunEnd::Stuck(m) = &g.end {
                // (ill-typed generator slips are rejected by the front end before any comparison)
                *sum.stats.notes.entry(format!("generator-side reference stuck: {}", m.chars().take(60).collect::<String>())).or_default() += 1;
            } else {
                expected = Expected::of(&g);
            }
            // programs that only use pool names (x0, a0, ...) without shadowing still get the unique
            // twin: a failure that disappears with fresh names is a clash with generated names
            if p.shadowed != p.unique {
                desh = Some(p.deshadowed.clone());
            }
            ("fungen".into(), p.shadowed.clone(), if p.shadowed != p.unique { Some(p.unique.clone()) } else { None }, argv, p.has_shadowing)
        };
        if shadow {
            sum.stats.with_shadowing += 1;
        }
        *_slow.2.borrow_mut() = format!("{kind} {argv:?}");
        // wrong argument count (C20): must be reported without running
        if id == "C20" && argv.len() <= 5 && rng.pct(15) {
            let k = argv.len();
            let mut bad = argv.clone();
            if bad.is_empty() || rng.pct(50) { bad.push("7".into()) } else { bad.pop(); }
            set_native_ctx(id, seed, i, "argc", &src, &bad);
            let r = run_exe(&rt, None, k, &bad, &EnvPlan::benign(), &ExecOpts { step_budget: 0, check_heap: false, record_snaps: 0, print_hook: None });
            sum.stats.executions += 1;
            sum.stats.driver_main_calls += 1;
            let text = String::from_utf8_lossy(&r.stdout).to_string();
            if r.asm_main_calls != 0 || !text.contains("wrong number of arguments") || r.status == 0 {
                let rp = XReplay {
                    engine: "X".into(),
                    property: "C20".into(),
                    class: "Argc".into(),
                    message: format!("driver for {k} parameter(s) started with {} argument(s): asm_main called {} times, output {:?}, status {}", bad.len(), r.asm_main_calls, text, r.status),
                    verif_seed: seed,
                    run: i,
                    kind: "argc".into(),
                    source: src.clone(),
                    argv: bad,
                    plan: EnvPlan::benign(),
                    minimised: true,
                    unique_twin: None,
                    deshadowed_twin: None,
                        expected: None,
                };
                emit(serde_json::json!({"found": rp}));
            }
        }
        if id == "C20" {
            // AArch64 half of the quantifier (0..7 parameters), stub driver
            let args: Vec<i64> = argv.iter().map(|a| a.parse().unwrap_or(0)).collect();
            let plan = hostile_plan(&mut prng, 1 << 16);
            match run_source_a64(&src, &args, &plan, keys, &mut sum.stats) {
                Verdict::Viol(class, message) => {
                    let rp = XReplay {
                        engine: "X".into(),
                        property: id.to_string(),
                        class,
                        message,
                        verif_seed: seed,
                        run: i,
                        kind: "a64-args".into(),
                        source: src.clone(),
                        argv: argv.clone(),
                        plan,
                        minimised: true,
                        unique_twin: None,
                    deshadowed_twin: None,
                        expected: None,
                    };
                    emit(serde_json::json!({"found": rp}));
                }
                Verdict::Harness(h) => {
                    sum.harness = Some(format!("run {i}: {h}"));
                    emit(serde_json::json!({"summary": sum}));
                    return 2;
                }
                Verdict::Ok => {
                    seen.insert(hash_str(&format!("a64|{src}|{argv:?}")));
                }
                _ => {}
            }
            if argv.len() > 5 {
                i += n;
                continue;
            }
        }
        set_native_ctx(id, seed, i, &kind, &src, &argv);
        for hostile in [false, true] {
            let plan = if hostile { hostile_plan(&mut prng, 1 << 16) } else { benign_plan(&mut prng, 1 << 16) };
            let v = run_source(&rt, &src, &argv, &plan, keys, &mut sum.stats, true, expected.as_ref());
            match v {
                Verdict::Ok => {
                    if !hostile {
                        seen.insert(hash_str(&format!("{src}|{argv:?}")));
                        if sum.samples.len() < 2 && src.len() < 1500 && kind != "c20-args" || sum.samples.is_empty() && kind == "c20-args" {
                            sum.samples.push(serde_json::json!({"workload": kind, "argv": argv, "source": src}));
                        }
                    }
                }
                Verdict::Discard(why) => {
                    sum.stats.discard(&why);
                    break;
                }
                Verdict::Note(n) => {
                    *sum.stats.notes.entry(n).or_default() += 1;
                    break;
                }
                Verdict::Harness(h) => {
                    sum.harness = Some(format!("run {i}: {h}"));
                    emit(serde_json::json!({"summary": sum}));
                    return 2;
                }
                Verdict::Viol(class, message) => {
                    let rp = XReplay {
                        engine: "X".into(),
                        property: id.to_string(),
                        class,
                        message,
                        verif_seed: seed,
                        run: i,
                        kind: kind.clone(),
                        source: src.clone(),
                        argv: argv.clone(),
                        plan,
                        minimised: false,
                        unique_twin: twin.clone(),
                        deshadowed_twin: desh.clone(),
                        expected: expected.clone(),
                    };
                    emit(serde_json::json!({"found": rp}));
                    break;
                }
            }
        }
        i += n;
    }
    sum.hashes = seen.into_iter().take(300_000).collect();
    emit(serde_json::json!({"summary": sum}));
    0
}

/// re-run a replay; Some((class, message)) if it still violates
pub fn replay_x(rt: &CRuntime, rp: &XReplay) -> Result<Option<(String, String)>, String> {
    let mut st = XStats::default();
    match rp.kind.as_str() {
        "print" => {
            let v: i64 = rp.argv[0].parse().map_err(|_| "bad replay")?;
            let newline = rp.argv[1] == "true";
            let (bytes, _, fds) = run_print(rt, newline, v);
            let mut want = v.to_string().into_bytes();
            if newline {
                want.push(b'\n');
            }
            if bytes != want || fds.iter().any(|f| *f != 1) {
                return Ok(Some(("Print".into(), format!("{}({v}) wrote {:?}, expected {:?}", if newline { "println_i64" } else { "print_i64" }, String::from_utf8_lossy(&bytes), String::from_utf8_lossy(&want)))));
            }
            Ok(None)
        }
        "print-stream" => {
            let calls = print_stream_calls(rp.verif_seed, rp.run);
            let (bytes, fds) = run_print_stream(rt, &calls);
            let mut want = Vec::new();
            for (nl, v) in &calls {
                funref::render_i64(&mut want, *nl, *v);
            }
            if bytes != want || fds.iter().any(|f| *f != 1) {
                return Ok(Some(("Print".into(), format!("a stream of {} print calls wrote {} bytes, expected {} bytes", calls.len(), bytes.len(), want.len()))));
            }
            Ok(None)
        }
        "driver-history" => {
            let mut rng = Rng::keyed(rp.verif_seed, rp.run, "x-workload");
            match driver_history(&mut rng, "replay") {
                Ok((_, Some(m))) => Ok(Some(("DriverHistory".into(), m))),
                Ok((_, None)) => Ok(None),
                Err(e) => Err(e),
            }
        }
        "a64-args" => {
            let args: Vec<i64> = rp.argv.iter().map(|a| a.parse().unwrap_or(0)).collect();
            let keys = Rng::keyed(rp.verif_seed, rp.run, "hashkeys").next() | 1;
            match run_source_a64(&rp.source, &args, &rp.plan, keys, &mut st) {
                Verdict::Viol(c, m) => Ok(Some((c, m))),
                Verdict::Harness(h) => Err(h),
                _ => Ok(None),
            }
        }
        "argc" => {
            let f = front(&rp.source, &[], 1, 10, false).ok();
            let k = f.map(|f| f.n_args).unwrap_or(0).min(5);
            let r = run_exe(rt, None, k, &rp.argv, &EnvPlan::benign(), &ExecOpts { step_budget: 0, check_heap: false, record_snaps: 0, print_hook: None });
            let text = String::from_utf8_lossy(&r.stdout).to_string();
            if r.asm_main_calls != 0 || !text.contains("wrong number of arguments") || r.status == 0 {
                return Ok(Some(("Argc".into(), "wrong argument count not reported".into())));
            }
            Ok(None)
        }
        _ => {
            let keys = Rng::keyed(rp.verif_seed, rp.run, "hashkeys").next() | 1;
            match run_source(rt, &rp.source, &rp.argv, &rp.plan, keys, &mut st, true, rp.expected.as_ref()) {
                Verdict::Viol(c, m) => Ok(Some((c, m))),
                Verdict::Harness(h) => Err(h),
                _ => Ok(None),
            }
        }
    }
}

/// split a source text into top-level items
fn items(src: &str) -> Vec<String> {
    let mut out: Vec<String> = Vec::new();
    for l in src.lines() {
        let start = l.starts_with("def ") || l.starts_with("data ") || l.starts_with("codata ");
        if start || out.is_empty() {
            out.push(String::new());
        }
        let last = out.last_mut().unwrap();
        last.push_str(l);
        last.push('\n');
    }
    out
}

pub fn minimise_x(rt: &CRuntime, rp: &mut XReplay, mut attempts: usize) {
    if rp.kind == "print" || rp.kind == "print-stream" || rp.kind == "argc" || rp.kind == "a64-args" || rp.kind == "driver-history" {
        return;
    }
    let same = |rt: &CRuntime, c: &XReplay, class: &str| -> Option<String> {
        match replay_x(rt, c) {
            Ok(Some((cl, m))) if cl == class => Some(m),
            _ => None,
        }
    };
    let class = rp.class.clone();
    loop {
        let mut progress = false;
        // fault plan
        let pl = rp.plan.clone();
        let mut tries = Vec::new();
        for f in 0..5 {
            let mut q = pl.clone();
            match f {
                0 if pl.e1_regs => q.e1_regs = false,
                1 if pl.e2_flags => q.e2_flags = false,
                2 if pl.e3_depth > 0 => q.e3_depth = 0,
                3 if pl.e4_entry => q.e4_entry = false,
                4 if pl.e6_stack => q.e6_stack = false,
                _ => continue,
            }
            tries.push(q);
        }
        for q in tries {
            if attempts == 0 {
                break;
            }
            attempts -= 1;
            let mut c = rp.clone();
            c.plan = q;
            if let Some(m) = same(rt, &c, &class) {
                c.message = m;
                *rp = c;
                progress = true;
            }
        }
        // top-level items
        let its = items(&rp.source);
        for i in (0..its.len()).rev() {
            if attempts == 0 || its.len() <= 1 {
                break;
            }
            if its[i].starts_with("def main") {
                continue;
            }
            attempts -= 1;
            let mut c = rp.clone();
            c.source = its.iter().enumerate().filter(|(j, _)| *j != i).map(|(_, s)| s.as_str()).collect();
            c.unique_twin = None;
            if let Some(m) = same(rt, &c, &class) {
                c.message = m;
                c.unique_twin = rp.unique_twin.clone();
                *rp = c;
                progress = true;
                break;
            }
        }
        // arguments towards 0
        for a in 0..rp.argv.len() {
            if rp.argv[a] != "0" && attempts > 0 && rp.expected.is_none() {
                attempts -= 1;
                let mut c = rp.clone();
                c.argv[a] = "0".into();
                if let Some(m) = same(rt, &c, &class) {
                    c.message = m;
                    *rp = c;
                    progress = true;
                }
            }
        }
        if !progress || attempts == 0 {
            break;
        }
    }
    rp.minimised = true;
}

/// Child side of the finalisation (see `check`): classify by the three spellings and minimise the
/// items `start..`, one JSON line per item, each preceded by an `at` line.
pub fn xfinal(id: &str, path: &str, start: usize) -> i32 {
    let say = |v: serde_json::Value| {
        let o = std::io::stdout();
        let mut o = o.lock();
        let _ = writeln!(o, "{}", serde_json::to_string(&v).unwrap());
        let _ = o.flush();
    };
    let found: Vec<XReplay> = match std::fs::read_to_string(path).ok().and_then(|s| serde_json::from_str(&s).ok()) {
        Some(f) => f,
        None => {
            say(serde_json::json!({"harness": format!("cannot read {path}")}));
            return 2;
        }
    };
    let rt = match CRuntime::build(&format!("{id}-final")) {
        Ok(r) => r,
        Err(e) => {
            say(serde_json::json!({"harness": format!("building the C runtime failed: {e}")}));
            return 2;
        }
    };
    let mut per_class: BTreeMap<String, usize> = BTreeMap::new();
    for (k, rp) in found.iter().enumerate().skip(start) {
        say(serde_json::json!({"at": k}));
        let mut rp = rp.clone();
        // a violation that disappears when all binders get unique names is the name-capture defect
        let mut class = rp.class.clone();
        // (a front-end disagreement depends on the spelling itself and is reported as it is)
        if let Some(tw) = rp.unique_twin.clone().filter(|_| rp.class != "FrontEnd") {
            let tw = &tw;
            let mut t = rp.clone();
            t.source = tw.clone();
            t.unique_twin = None;
            match replay_x(&rt, &t) {
                Ok(None) => {
                    // passes with unique names: user-level shadowing (capture) or a clash between a
                    // user name and a compiler-generated name?
                    class = "Capture".into();
                    if let Some(dw) = &rp.deshadowed_twin {
                        let mut t2 = rp.clone();
                        t2.source = dw.clone();
                        t2.unique_twin = None;
                        t2.deshadowed_twin = None;
                        if let Ok(Some((_, m))) = replay_x(&rt, &t2) {
                            class = "NameClash".into();
                            rp.source = dw.clone();
                            rp.message = format!("a user-chosen name collides with a compiler-generated one (no shadowing in the program; it behaves correctly once all binders get fresh names): {m}");
                        }
                    }
                }
                Ok(Some(_)) => {
                    // fails without shadowing as well: report the simpler twin
                    rp.source = tw.clone();
                    rp.unique_twin = None;
                }
                Err(h) => {
                    say(serde_json::json!({"harness": h}));
                    return 2;
                }
            }
        }
        if class == "Capture" {
            rp.class = "Capture".into();
            rp.message = format!("behaviour changes when shadowed binders are renamed apart (variable capture in the pipeline): {}", rp.message);
        }
        let cnt = per_class.entry(class.clone()).or_default();
        *cnt += 1;
        if *cnt <= 4 {
            if class == "NameClash" {
                rp.class = "NameClash".into();
            } else if class != "Capture" {
                minimise_x(&rt, &mut rp, 60);
            }
        }
        say(serde_json::json!({"item": {"k": k, "class": class, "rp": rp}}));
    }
    say(serde_json::json!({"done": true}));
    0
}

pub fn check(id: &str, tier: &str) -> i32 {
    let t0 = std::time::Instant::now();
    let seed: u64 = std::env::var("VERIF_SEED").ok().and_then(|s| s.parse().ok()).unwrap_or(1);
    let nw: u64 = std::env::var("VERIF_WORKERS").ok().and_then(|s| s.parse().ok()).unwrap_or_else(|| std::thread::available_parallelism().map(|n| n.get() as u64).unwrap_or(8));
    println!("VERIF_SEED={seed} property={id} tier={tier} runs={} workers={nw}", runs_for(id, tier));
    let exe = std::env::current_exe().expect("exe");
    let mut total = XStats::default();
    let mut found: Vec<XReplay> = Vec::new();
    let mut hashes: BTreeSet<u64> = BTreeSet::new();
    let mut samples = Vec::new();
    let mk = |w: u64| -> Command {
        let mut c = Command::new(&exe);
        c.args(["xworker", id, tier, &seed.to_string(), &w.to_string(), &nw.to_string()]);
        c
    };
    let (lines, crash_notes) = match crate::orch::supervise(nw, &mk) {
        Ok(x) => x,
        Err(e) => {
            println!("HARNESS-ERROR: {e}");
            return 2;
        }
    };
    for n in crash_notes {
        *total.notes.entry(n).or_default() += 1;
    }
    for l in lines {
        let Ok(v) = crate::orch::from_json::<serde_json::Value>(&l) else {
            // a line that cannot be read must never be dropped silently
            if l.trim().is_empty() {
                continue;
            }
            println!("HARNESS-ERROR: a worker line could not be read: {}", l.chars().take(120).collect::<String>());
            return 2;
        };
        if let Some(f) = v.get("found") {
            if let Ok(rp) = serde_json::from_value::<XReplay>(f.clone()) {
                found.push(rp);
            }
        } else if let Some(s) = v.get("summary") {
            if let Ok(s) = serde_json::from_value::<XSummary>(s.clone()) {
                if let Some(h) = s.harness {
                    println!("HARNESS-ERROR: {h}");
                    return 2;
                }
                total.merge(&s.stats);
                hashes.extend(s.hashes);
                if samples.len() < 3 {
                    samples.extend(s.samples.into_iter().take(1));
                }
            }
        }
    }
    let rt = match CRuntime::build(&format!("{id}-main")) {
        Ok(r) => r,
        Err(e) => {
            println!("HARNESS-ERROR: building the C runtime failed: {e}");
            return 2;
        }
    };
    let known = load_known();
    let mut known_lines: BTreeSet<String> = BTreeSet::new();
    let mut viol_lines = Vec::new();
    let mut violations = 0;
    found.sort_by_key(|f| (f.source.len(), f.run));
    let mut per_class: BTreeMap<String, usize> = BTreeMap::new();
    let mut capture_total = 0u64;
    // classification by the three spellings and minimisation recompile candidate programs, and a
    // broken compiler can take the whole process down (stack overflow): that work is done in a
    // child process which is restarted behind the item it died on; that item is reported as found
    let _ = &rt;
    let list_path = format!("{}/work/xfinal-{}.json", verif_dir(), std::process::id());
    let _ = std::fs::create_dir_all(format!("{}/work", verif_dir()));
    if std::fs::write(&list_path, serde_json::to_string(&found).unwrap()).is_err() {
        println!("HARNESS-ERROR: cannot write {list_path}");
        return 2;
    }
    let mut finalised: Vec<(String, XReplay)> = Vec::new();
    let mut start = 0usize;
    let mut crashes = 0;
    while start < found.len() {
        let out = Command::new(&exe).args(["xfinal", id, &list_path, &start.to_string()]).stderr(Stdio::null()).output();
        let Ok(out) = out else {
            println!("HARNESS-ERROR: cannot run the finalising child process");
            return 2;
        };
        let mut last_at = None;
        let mut done = false;
        for l in String::from_utf8_lossy(&out.stdout).lines() {
            let Ok(v) = serde_json::from_str::<serde_json::Value>(l) else { continue };
            if let Some(k) = v.get("at").and_then(|k| k.as_u64()) {
                last_at = Some(k as usize);
            } else if let Some(it) = v.get("item") {
                let class = it.get("class").and_then(|c| c.as_str()).unwrap_or("").to_string();
                if let Some(rp) = it.get("rp").and_then(|r| serde_json::from_value::<XReplay>(r.clone()).ok()) {
                    finalised.push((class, rp));
                }
            } else if v.get("done").is_some() {
                done = true;
            } else if let Some(h) = v.get("harness").and_then(|h| h.as_str()) {
                println!("HARNESS-ERROR: {h}");
                return 2;
            }
        }
        if done {
            break;
        }
        // the child died on item `last_at`: keep that item as the worker found it
        let Some(k) = last_at else {
            println!("HARNESS-ERROR: the finalising child process ended abnormally before its first item");
            return 2;
        };
        crashes += 1;
        if crashes > 500 {
            println!("HARNESS-ERROR: the finalising child process keeps crashing");
            return 2;
        }
        *total.notes.entry("classification/minimisation of a finding crashed the compiler under test (finding reported as found)".into()).or_default() += 1;
        // (items before k were all emitted; k itself is missing)
        finalised.truncate(k);
        if finalised.len() != k {
            println!("HARNESS-ERROR: the finalising child process skipped items");
            return 2;
        }
        finalised.push((found[k].class.clone(), found[k].clone()));
        start = k + 1;
    }
    let _ = std::fs::remove_file(&list_path);
    for (class, rp) in &finalised {
        let (class, mut rp) = (class.clone(), rp.clone());
        if class == "Capture" {
            capture_total += 1;
        }
        let cnt = per_class.entry(class.clone()).or_default();
        *cnt += 1;
        if *cnt > 4 {
            continue;
        }
        let _ = &mut rp;
        if let Some(k) = known_match(&known, id, &rp.class, "x86_64", &rp.message, &rp.source) {
            known_lines.insert(format!("KNOWN-FINDING: property={id} {}", k.what));
            continue;
        }
        if *cnt > 1 {
            continue;
        }
        let dir = format!("{}/replays/{id}", verif_dir());
        let _ = std::fs::create_dir_all(&dir);
        let body = serde_json::to_string_pretty(&rp).unwrap();
        let path = format!("{dir}/{}-{:016x}.json", rp.class, hash_str(&body));
        std::fs::write(&path, body).expect("write replay");
        let st = Command::new(&exe).args(["replay", &path]).stdout(Stdio::null()).stderr(Stdio::null()).status();
        if st.ok().and_then(|s| s.code()) != Some(1) {
            println!("HARNESS-ERROR: replay of {path} did not reproduce");
            return 2;
        }
        violations += 1;
        println!("  class={} kind={} run={} argv={:?}", rp.class, rp.kind, rp.run, rp.argv);
        println!("  {}", rp.message);
        viol_lines.push(format!("VIOLATION property={id} replay={path}"));
    }
    let p1 = if id == "C20" {
        let mut prng = Rng::keyed(seed, 0, "p1-probe");
        let (n, inc) = probe_p1(&rt, &mut prng, 200);
        serde_json::json!({"probe": "P1: one short or interrupted write(2) per print call", "runs": n, "runs_with_incomplete_output": inc, "note": "observation only, never a verdict: C20 does not quantify over I/O faults; the print primitives issue a single write and do not retry"})
    } else {
        serde_json::Value::Null
    };
    let wall = t0.elapsed().as_secs_f64();
    if samples.is_empty() {
        samples.push(serde_json::json!({"note": "no sample within the size limit"}));
    }
    let ev = serde_json::json!({
        "property_id": id, "tier": tier, "seed": seed, "level": "exploration",
        "coverage": {
            "evaluations": total.executions.max(1),
            "distinct_nontrivial": hashes.len(),
            "rule": "one evaluation = one whole-executable run: the real generated C driver's main is called with decimal argv strings, its asm_main call lands in the x86-64 emulator running the text emitted by the real pipeline, every print goes through the real io.c and the write seam; stdout bytes and exit status are compared with an independent Fun environment/continuation machine; each program runs under a benign and a seeded hostile environment plan. distinct = distinct (source, argv) pairs that ran to completion (C20 print-only scenarios: distinct (value, variant))",
            "samples": samples,
            "simulated_runs": total.runs,
            "runs_per_hour": if wall > 0.0 { (total.runs as f64 / wall * 3600.0) as u64 } else { 0 },
            "simulated_time": {"instructions_executed": total.instructions, "statement_boundaries_passed": total.markers, "reference_machine_steps": total.ref_steps},
            "heap_invariant_evaluations": total.heap_checks,
            "print_calls_through_real_io_c": total.native_print_calls,
            "driver_main_invocations": total.driver_main_calls,
            "stdout_bytes_compared": total.stdout_bytes,
            "fault_kinds_injected": total.faults,
            "programs_with_deliberate_shadowing": total.with_shadowing,
            "findings_attributed_to_name_capture": capture_total,
            "rare_path_probes_hit": total.probes,
            "discarded_runs_by_reason": total.discarded,
            "pipeline_failure_notes": total.notes,
            "known_findings_reported": known_lines,
            "probe_P1_short_or_interrupted_write": p1,
            "components": {
                "real": ["fun parser and checker", "fun2core", "core_lang focusing", "core2axcut", "axcut linearize", "axcut2backend + axcut2x86_64", "emitted x86-64 text", "driver::generate_c_driver output compiled by gcc", "driver/infrastructure/io.c compiled by gcc"],
                "stub": ["CPU: x86-64 text emulator", "libc write/calloc/free (seams)", "process: argv in, stdout bytes and exit status out"],
                "reference_model": "Fun environment/continuation machine over the checked AST"
            }
        },
        "assumptions": ["the generator stays in the fragment where the source semantics is unambiguous (terminating programs; arguments left to right, destructor arguments before the scrutinee, codata by name)", "two reference machines: one on the AST produced by the repository's parser and checker, one on the generator's own tree (generated programs only); they must agree", "x86-64 emulator fidelity", "exploration: a clean batch is evidence, not proof"],
        "wall_s": wall, "violations": violations
    });
    let _ = std::fs::create_dir_all(format!("{}/evidence", verif_dir()));
    std::fs::write(format!("{}/evidence/{id}.json", verif_dir()), serde_json::to_string_pretty(&ev).unwrap()).expect("evidence");
    for l in &known_lines {
        println!("{l}");
    }
    for l in &viol_lines {
        println!("{l}");
    }
    println!("property={id} runs={} executions={} instructions={} discarded={:?} findings={} (name capture {}) wall={:.1}s", total.runs, total.executions, total.instructions, total.discarded, found.len(), capture_total, wall);
    for (k, v) in &total.notes {
        println!("NOTE: {k} (x{v})");
    }
    if violations > 0 { 1 } else { 0 }
}

// ---------------------------------------------------------------------------------------------
// emulator fidelity: the same emitted text run natively (GNU as after a syntax-only
// transliteration) must give the same stdout and exit status as the emulator

pub fn nasm_to_gas(text: &str) -> String {
    let mut out = String::from(".intel_syntax noprefix\n");
    for l in text.lines() {
        let t = l.trim();
        if t.is_empty() {
            out.push('\n');
        } else if let Some(c) = t.strip_prefix(';') {
            out.push_str(&format!("    #{c}\n"));
        } else if t.starts_with("section .note.GNU-stack") {
            out.push_str(".section .note.GNU-stack,\"\",@progbits\n");
        } else if t == "section .text" {
            out.push_str(".text\n");
        } else if t.starts_with("extern ") {
        } else if let Some(g) = t.strip_prefix("global ") {
            out.push_str(&format!(".globl {g}\n"));
        } else if let Some(l) = t.strip_prefix("jmp near ") {
            out.push_str(&format!("    .byte 0xe9\n    .long {l} - . - 4\n"));
        } else {
            let x = t.replace("qword [", "qword ptr [").replace("[rel ", "[rip + ");
            out.push_str(&format!("    {x}\n"));
        }
    }
    out
}

pub fn selftest(n: u64) -> i32 {
    let seed: u64 = std::env::var("VERIF_SEED").ok().and_then(|s| s.parse().ok()).unwrap_or(1);
    let rt = match CRuntime::build("selftest") {
        Ok(r) => r,
        Err(e) => {
            println!("HARNESS-ERROR: {e}");
            return 2;
        }
    };
    let dir = format!("{}/work/native-{}", verif_dir(), std::process::id());
    let _ = std::fs::create_dir_all(&dir);
    let old = std::env::current_dir().unwrap();
    std::env::set_current_dir(&dir).unwrap();
    std::fs::write("io.c", driver::IO_RUNTIME).unwrap();
    let (mut agree, mut disagree, mut skipped, mut instr) = (0u64, 0u64, 0u64, 0u64);
    let corpus = corpus_with_args();
    for i in 0..n {
        let mut rng = Rng::keyed(seed, i, "selftest");
        let (src, argv): (String, Vec<String>) = if (i as usize) < corpus.len() {
            (corpus[i as usize].1.clone(), corpus[i as usize].2.clone())
        } else {
            let cfg = FunCfg::swarm(&mut rng, 60);
            let p = fungen::generate(&mut rng, &cfg);
            (p.unique.clone(), p.args.iter().map(|a| a.to_string()).collect())
        };
        let args: Vec<i64> = argv.iter().map(|a| a.parse().unwrap_or(0)).collect();
        let Ok(f) = front(&src, &args, 77, 300_000, false) else {
            skipped += 1;
            continue;
        };
        // only runs on which the program terminates normally make sense natively
        if !matches!(f.reference.end, FunEnd::Done(_)) || f.n_args > 5 || f.n_args != args.len() {
            skipped += 1;
            continue;
        }
        let Ok(text) = f.text else {
            skipped += 1;
            continue;
        };
        let plan = EnvPlan::benign();
        let Ok(prog) = x86::load(&text, plan.code_base) else {
            skipped += 1;
            continue;
        };
        let opts = ExecOpts { step_budget: (400 * f.reference.steps + 100_000).min(60_000_000), check_heap: false, record_snaps: 0, print_hook: None };
        let emu = run_exe(&rt, Some(prog), f.n_args, &argv, &plan, &opts);
        if emu.outcome.as_ref().map(|o| o.viol.is_some()).unwrap_or(true) {
            skipped += 1;
            continue;
        }
        instr += emu.outcome.as_ref().map(|o| o.steps).unwrap_or(0);
        std::fs::write("p.s", nasm_to_gas(&text)).unwrap();
        let drv = driver::generate_c_driver(f.n_args, None);
        let ok = Command::new("gcc").args(["-no-pie", "-w", "-o", "p.exe", drv.to_str().unwrap(), "io.c", "p.s"]).stderr(Stdio::null()).status().map(|s| s.success()).unwrap_or(false);
        if !ok {
            println!("selftest #{i}: GNU as / gcc rejected the transliterated text");
            disagree += 1;
            continue;
        }
        let o = Command::new("./p.exe").args(&argv).output().unwrap();
        let status = o.status.code().unwrap_or(-1);
        if o.stdout != emu.stdout || status != emu.status {
            disagree += 1;
            println!(
                "selftest #{i}: native stdout {:?} status {} vs emulator stdout {:?} status {}",
                String::from_utf8_lossy(&o.stdout).chars().take(80).collect::<String>(),
                status,
                String::from_utf8_lossy(&emu.stdout).chars().take(80).collect::<String>(),
                emu.status
            );
            let _ = std::fs::write(format!("{}/work/selftest-{i}.sc", verif_dir()), &src);
        } else {
            agree += 1;
        }
    }
    // part 2: generated linear AxCut programs (spills, multi-block objects, sharing, 64-bit
    // literals, all operators) straight through the x86-64 back end
    let (mut agree2, mut disagree2, mut skipped2, mut instr2) = (0u64, 0u64, 0u64, 0u64);
    for i in 0..n {
        let mut rng = Rng::keyed(seed, i, "selftest-axcut");
        let g = crate::wgen::GenCfg::swarm(&mut rng, 26, 5, true, 60);
        let prog = crate::wgen::gen_program(&mut rng, &g);
        let args: Vec<i64> = (0..prog.defs[0].params.len()).map(|_| rng.range(-100, 100)).collect();
        let ro = crate::refm::run(&prog, &args, 400_000);
        if !matches!(ro.end, crate::refm::RefEnd::Exit(_)) {
            skipped2 += 1;
            continue;
        }
        let Ok(text) = crate::compile::emit(&prog, crate::compile::Backend::X86, 99) else {
            skipped2 += 1;
            continue;
        };
        let plan = EnvPlan::benign();
        let Ok(lp) = x86::load(&text, plan.code_base) else {
            skipped2 += 1;
            continue;
        };
        let opts = ExecOpts { step_budget: 2000 * ro.steps + 10_000, check_heap: false, record_snaps: 0, print_hook: None };
        let (out, _) = x86::exec(&lp, &args, &plan, &opts);
        if out.viol.is_some() || out.result.is_none() {
            skipped2 += 1;
            continue;
        }
        instr2 += out.steps;
        let mut want = Vec::new();
        for c in &out.calls {
            funref::render_i64(&mut want, c.newline, c.arg);
        }
        let want_status = (out.result.unwrap() & 0xff) as i32;
        std::fs::write("q.s", nasm_to_gas(&text)).unwrap();
        let drv = driver::generate_c_driver(args.len(), None);
        let ok = Command::new("gcc").args(["-no-pie", "-w", "-o", "q.exe", drv.to_str().unwrap(), "io.c", "q.s"]).stderr(Stdio::null()).status().map(|s| s.success()).unwrap_or(false);
        if !ok {
            println!("selftest axcut #{i}: GNU as / gcc rejected the transliterated text");
            disagree2 += 1;
            continue;
        }
        let argv: Vec<String> = args.iter().map(|a| a.to_string()).collect();
        let o = Command::new("./q.exe").args(&argv).output().unwrap();
        let status = o.status.code().unwrap_or(-1);
        if o.stdout != want || status != want_status {
            disagree2 += 1;
            println!(
                "selftest axcut #{i}: native stdout {:?} status {} vs emulator stdout {:?} status {}",
                String::from_utf8_lossy(&o.stdout).chars().take(80).collect::<String>(),
                status,
                String::from_utf8_lossy(&want).chars().take(80).collect::<String>(),
                want_status
            );
        } else {
            agree2 += 1;
        }
    }
    std::env::set_current_dir(old).unwrap();
    let _ = std::fs::remove_dir_all(&dir);
    println!("x86-64 emulator vs native CPU: {agree} programs agree, {disagree} disagree, {skipped} skipped, {instr} emulated instructions");
    println!("x86-64 emulator vs native CPU on generated AxCut: {agree2} programs agree, {disagree2} disagree, {skipped2} skipped, {instr2} emulated instructions");
    let disagree = disagree + disagree2;
    if disagree > 0 { 2 } else { 0 }
}
