//! Hash-key seam: std's `RandomState` obtains its per-thread keys through the C symbol
//! `getrandom`. Defining that symbol in the harness binary makes the keys a pure function of the
//! value the simulator stored in `NEXT_KEYS` before it started the thread ("process instance").

use std::sync::atomic::{AtomicU64, Ordering};

pub static NEXT_KEYS: AtomicU64 = AtomicU64::new(0);
pub static KEY_REQUESTS: AtomicU64 = AtomicU64::new(0);

fn mix(mut z: u64) -> u64 {
    z = (z ^ (z >> 30)).wrapping_mul(0xbf58476d1ce4e5b9);
    z = (z ^ (z >> 27)).wrapping_mul(0x94d049bb133111eb);
    z ^ (z >> 31)
}

/// # Safety
/// called by libc clients with a valid buffer
#[unsafe(no_mangle)]
pub unsafe extern "C" fn getrandom(buf: *mut libc::c_void, len: libc::size_t, flags: libc::c_uint) -> libc::ssize_t {
    let k = NEXT_KEYS.load(Ordering::SeqCst);
    if k == 0 {
        // seam not armed: behave like the real thing
        return unsafe { libc::syscall(libc::SYS_getrandom, buf, len, flags) as libc::ssize_t };
    }
    KEY_REQUESTS.fetch_add(1, Ordering::SeqCst);
    let p = buf as *mut u8;
    let mut s = k;
    for i in 0..len {
        if i % 8 == 0 {
            s = mix(s.wrapping_add(0x9e3779b97f4a7c15));
        }
        unsafe { *p.add(i) = (s >> (8 * (i % 8))) as u8 };
    }
    len as libc::ssize_t
}

/// Run `f` in a fresh OS thread whose `RandomState` keys are derived from `keys` (non-zero).
/// The closure result is returned; a panic is returned as its message.
pub fn in_instance<T: Send>(keys: u64, f: impl FnOnce() -> T + Send) -> Result<T, String> {
    NEXT_KEYS.store(keys | 1, Ordering::SeqCst);
    let r = std::thread::scope(|s| {
        std::thread::Builder::new()
            .stack_size(256 << 20)
            .spawn_scoped(s, move || std::panic::catch_unwind(std::panic::AssertUnwindSafe(f)))
            .expect("spawn")
            .join()
    });
    match r {
        Ok(Ok(v)) => Ok(v),
        Ok(Err(e)) | Err(e) => Err(panic_msg(&e)),
    }
}

pub fn panic_msg(e: &Box<dyn std::any::Any + Send>) -> String {
    if let Some(s) = e.downcast_ref::<&str>() {
        s.to_string()
    } else if let Some(s) = e.downcast_ref::<String>() {
        s.clone()
    } else {
        "panic".to_string()
    }
}

pub fn silence_panics() {
    if std::env::var("VERIF_PANIC").is_ok() {
        return;
    }
    std::panic::set_hook(Box::new(|_| {}));
}
