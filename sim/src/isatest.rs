//! Instruction-semantics vectors for the three emulators (hand-derived from the architecture
//! manuals): literal synthesis, division corner cases, signed comparisons at the overflow
//! boundaries, pre/post-indexed pairs. `sim isatest` runs them; a failure is a harness error.

use crate::mach::*;
use crate::{a64, rv, x86};

fn opts() -> ExecOpts {
    ExecOpts { step_budget: 10_000, check_heap: false, record_snaps: 0, print_hook: None }
}

fn run_a64(body: &str, args: &[i64]) -> Result<i64, String> {
    let text = format!(".text\n.global asm_main\n\nasm_main:\n{body}\n    RET\n");
    let plan = EnvPlan::benign();
    let p = a64::load(&text, plan.code_base).map_err(|e| match e {
        LoadErr::Text(v) => v.msg,
        LoadErr::Harness(m) => m,
    })?;
    let (o, _) = a64::exec(&p, args, &plan, &opts());
    match (o.result, o.viol) {
        (Some(r), None) => Ok(r),
        (_, Some(v)) => Err(v.msg),
        _ => Err("no result".into()),
    }
}

fn run_x86(body: &str, args: &[i64]) -> Result<i64, String> {
    let text = format!("section .text\nextern print_i64\nextern println_i64\nglobal asm_main\n\nasm_main:\n{body}\n    ret\n");
    let plan = EnvPlan::benign();
    let p = x86::load(&text, plan.code_base).map_err(|e| match e {
        LoadErr::Text(v) => v.msg,
        LoadErr::Harness(m) => m,
    })?;
    let (o, _) = x86::exec(&p, args, &plan, &opts());
    match (o.result, o.viol) {
        (Some(r), None) => Ok(r),
        (_, Some(v)) => Err(v.msg),
        _ => Err("no result".into()),
    }
}

fn run_rv(body: &str, args: &[i64]) -> Result<i64, String> {
    let text = format!("// actual code\nmain_:\n{body}\nJAL X0 cleanup\n\ncleanup:");
    let plan = EnvPlan::benign();
    let p = rv::load(&text, plan.code_base).map_err(|e| match e {
        LoadErr::Text(v) => v.msg,
        LoadErr::Harness(m) => m,
    })?;
    let (o, _) = rv::exec(&p, args, &plan, &opts());
    match (o.result, o.viol) {
        (Some(r), None) => Ok(r),
        (_, Some(v)) => Err(v.msg),
        _ => Err("no result".into()),
    }
}

/// six signed conditions as a bit mask eq|ne<<1|lt<<2|le<<3|gt<<4|ge<<5
fn cond_mask(a: i64, b: i64) -> i64 {
    (a == b) as i64 | ((a != b) as i64) << 1 | ((a < b) as i64) << 2 | ((a <= b) as i64) << 3 | ((a > b) as i64) << 4 | ((a >= b) as i64) << 5
}

pub fn run_all() -> i32 {
    let mut fails = 0;
    let mut total = 0;
    let mut check = |name: &str, got: Result<i64, String>, want: i64| {
        total += 1;
        if got != Ok(want) {
            fails += 1;
            println!("isatest FAILED {name}: got {got:?}, want {want}");
        }
    };
    let bounds = [0i64, 1, -1, 2, -2, i64::MAX, i64::MIN, i64::MIN + 1, i64::MAX - 1, 1 << 31, -(1 << 31), 1 << 32, 12345, -12345];
    // ---- AArch64
    check("a64 movz", run_a64("    MOVZ X0, 4660, LSL 16", &[]), 0x1234_0000);
    check("a64 movz48", run_a64("    MOVZ X0, 32768, LSL 48", &[]), i64::MIN);
    check("a64 movn0", run_a64("    MOVN X0, 0, LSL 0", &[]), -1);
    check("a64 movn", run_a64("    MOVN X0, 4660, LSL 16", &[]), !(0x1234_0000i64));
    check("a64 movn+movk", run_a64("    MOVN X0, 60875, LSL 0\n    MOVK X0, 0, LSL 32", &[]), (!(60875i64)) & !(0xffff << 32));
    check("a64 movk keeps", run_a64("    MOVZ X0, 1, LSL 0\n    MOVK X0, 2, LSL 16\n    MOVK X0, 3, LSL 32\n    MOVK X0, 4, LSL 48", &[]), 0x0004_0003_0002_0001);
    check("a64 add imm", run_a64("    MOV X0, X1\n    ADD X0, X0, 4095", &[7]), 7 + 4095);
    check("a64 sub wraps", run_a64("    SUB X0, X1, X2", &[i64::MIN, 1]), i64::MAX);
    check("a64 mul wraps", run_a64("    MUL X0, X1, X2", &[i64::MAX, 2]), i64::MAX.wrapping_mul(2));
    check("a64 sdiv trunc", run_a64("    SDIV X0, X1, X2", &[-7, 2]), -3);
    check("a64 sdiv zero", run_a64("    SDIV X0, X1, X2", &[5, 0]), 0);
    check("a64 sdiv ovf", run_a64("    SDIV X0, X1, X2", &[i64::MIN, -1]), i64::MIN);
    check("a64 msub rem", run_a64("    SDIV X3, X1, X2\n    MSUB X0, X3, X2, X1", &[-7, 2]), -1);
    check("a64 stp/ldp", run_a64("    STP X1, X2, [ SP, -16 ]!\n    LDP X3, X4, [ SP ], 16\n    SUB X0, X3, X4", &[30, 12]), 18);
    check("a64 str/ldr sp", run_a64("    SUB SP, SP, 32\n    STR X1, [ SP, 24 ]\n    LDR X0, [ SP, 24 ]\n    ADD SP, SP, 32", &[77]), 77);
    check("a64 xzr", run_a64("    SUB SP, SP, 16\n    STR X1, [ SP, 8 ]\n    STR XZR, [ SP, 8 ]\n    LDR X0, [ SP, 8 ]\n    ADD SP, SP, 16", &[77]), 0);
    for a in bounds {
        for b in bounds {
            let body = "    MOV X9, X1\n    MOV X10, X2\n    MOVZ X0, 0, LSL 0\n    CMP X9, X10\n    BNE l1\n    ADD X0, X0, 1\nl1:\n    CMP X9, X10\n    BEQ l2\n    ADD X0, X0, 2\nl2:\n    CMP X9, X10\n    BGE l3\n    ADD X0, X0, 4\nl3:\n    CMP X9, X10\n    BGT l4\n    ADD X0, X0, 8\nl4:\n    CMP X9, X10\n    BLE l5\n    ADD X0, X0, 16\nl5:\n    CMP X9, X10\n    BLT l6\n    ADD X0, X0, 32\nl6:";
            check(&format!("a64 cmp {a} {b}"), run_a64(body, &[a, b]), cond_mask(a, b));
        }
    }
    // ---- x86-64
    check("x86 mov imm64", run_x86("    mov rax, -1311768467463790320", &[]), -1311768467463790320);
    check("x86 add wraps", run_x86("    mov rax, rsi\n    add rax, rdx", &[i64::MAX, 1]), i64::MIN);
    check("x86 imul", run_x86("    mov rax, rsi\n    imul rax, rdx", &[i64::MAX, 3]), i64::MAX.wrapping_mul(3));
    check("x86 idiv trunc", run_x86("    mov rcx, rdx\n    mov rax, rsi\n    cqo\n    idiv rcx", &[-7, 2]), -3);
    check("x86 idiv rem", run_x86("    mov rcx, rdx\n    mov rax, rsi\n    cqo\n    idiv rcx\n    mov rax, rdx", &[-7, 2]), -1);
    check("x86 push/pop", run_x86("    push rsi\n    push rdx\n    pop rax\n    pop rcx\n    sub rax, rcx", &[5, 9]), 4);
    check("x86 mem imm", run_x86("    sub rsp, 16\n    mov qword [rsp + 8], -5\n    add qword [rsp + 8], 3\n    mov rax, [rsp + 8]\n    add rsp, 16", &[]), -2);
    check("x86 div by zero traps", run_x86("    mov rcx, rdx\n    mov rax, rsi\n    cqo\n    idiv rcx", &[1, 0]).map_err(|e| e.contains("#DE")).err().map(|b| b as i64).ok_or(String::new()), 1);
    for a in bounds {
        for b in bounds {
            let body = "    mov r8, rsi\n    mov r9, rdx\n    mov rax, 0\n    cmp r8, r9\n    jne l1\n    add rax, 1\nl1:\n    cmp r8, r9\n    je l2\n    add rax, 2\nl2:\n    cmp r8, r9\n    jge l3\n    add rax, 4\nl3:\n    cmp r8, r9\n    jg l4\n    add rax, 8\nl4:\n    cmp r8, r9\n    jle l5\n    add rax, 16\nl5:\n    cmp r8, r9\n    jl l6\n    add rax, 32\nl6:";
            check(&format!("x86 cmp {a} {b}"), run_x86(body, &[a, b]), cond_mask(a, b));
        }
    }
    // ---- RV64 (pseudo-assembly as printed)
    check("rv li", run_rv("LI X10 -1311768467463790320", &[]), -1311768467463790320);
    check("rv add imm", run_rv("ADD X10 X5 -2048", &[5]), 5 - 2048);
    check("rv div trunc", run_rv("DIV X10 X5 X7", &[-7, 2]), -3);
    check("rv div zero", run_rv("DIV X10 X5 X7", &[5, 0]), -1);
    check("rv div ovf", run_rv("DIV X10 X5 X7", &[i64::MIN, -1]), i64::MIN);
    check("rv rem", run_rv("REM X10 X5 X7", &[-7, 2]), -1);
    check("rv rem zero", run_rv("REM X10 X5 X7", &[5, 0]), 5);
    check("rv rem ovf", run_rv("REM X10 X5 X7", &[i64::MIN, -1]), 0);
    check("rv sw/lw 64-bit", run_rv("SW X5 16 X2\nLW X10 16 X2", &[i64::MIN + 12345]), i64::MIN + 12345);
    check("rv x0", run_rv("ADD X0 X5 1\nMV X10 X0", &[5]), 0);
    for a in bounds {
        for b in bounds {
            let body = "LI X10 0\nBNE X5 X7 l1\nADD X10 X10 1\n\nl1:\nBEQ X5 X7 l2\nADD X10 X10 2\n\nl2:\nBGE X5 X7 l3\nADD X10 X10 4\n\nl3:\nBGT X5 X7 l4\nADD X10 X10 8\n\nl4:\nBLE X5 X7 l5\nADD X10 X10 16\n\nl5:\nBLT X5 X7 l6\nADD X10 X10 32\n\nl6:";
            check(&format!("rv cmp {a} {b}"), run_rv(body, &[a, b]), cond_mask(a, b));
        }
    }
    println!("isatest: {} vectors, {} failed", total, fails);
    if fails > 0 { 2 } else { 0 }
}
