//! Instruction-semantics vectors for the three emulators (hand-derived from the architecture
//! manuals): literal synthesis, division corner cases, signed comparisons at the overflow
//! boundaries, pre/post-indexed pairs. `sim isatest` runs them; a failure is a harness error.

use crate::mach::*;
use crate::{a64, rv, x86};

fn opts() -> ExecOpts {
    ExecOpts { step_budget: 10_000, check_heap: false, record_snaps: 0, print_hook: None }
}

fn run_a64(body: &str, args: &[i64]) -> Result<i64, String> {
    let text = format!(".text\n.global asm_main\n\nasm_main:\n{body}\n    RET\n");
    let plan = EnvPlan::benign();
    let p = a64::load(&text, plan.code_base).map_err(|e| match e {
        LoadErr::Text(v) => v.msg,
        LoadErr::Harness(m) => m,
    })?;
    let (o, _) = a64::exec(&p, args, &plan, &opts());
    match (o.result, o.viol) {
        (Some(r), None) => Ok(r),
        (_, Some(v)) => Err(v.msg),
        _ => Err("no result".into()),
    }
}

fn run_x86(body: &str, args: &[i64]) -> Result<i64, String> {
    let text = format!("section .text\nextern print_i64\nextern println_i64\nglobal asm_main\n\nasm_main:\n{body}\n    ret\n");
    let plan = EnvPlan::benign();
    let p = x86::load(&text, plan.code_base).map_err(|e| match e {
        LoadErr::Text(v) => v.msg,
        LoadErr::Harness(m) => m,
    })?;
    let (o, _) = x86::exec(&p, args, &plan, &opts());
    match (o.result, o.viol) {
        (Some(r), None) => Ok(r),
        (_, Some(v)) => Err(v.msg),
        _ => Err("no result".into()),
    }
}

fn run_rv(body: &str, args: &[i64]) -> Result<i64, String> {
    let text = format!("// actual code\nmain_:\n{body}\nJAL X0 cleanup\n\ncleanup:");
    let plan = EnvPlan::benign();
    let p = rv::load(&text, plan.code_base).map_err(|e| match e {
        LoadErr::Text(v) => v.msg,
        LoadErr::Harness(m) => m,
    })?;
    let (o, _) = rv::exec(&p, args, &plan, &opts());
    match (o.result, o.viol) {
        (Some(r), None) => Ok(r),
        (_, Some(v)) => Err(v.msg),
        _ => Err("no result".into()),
    }
}

/// six signed conditions as a bit mask eq|ne<<1|lt<<2|le<<3|gt<<4|ge<<5
fn cond_mask(a: i64, b: i64) -> i64 {
    (a == b) as i64 | ((a != b) as i64) << 1 | ((a < b) as i64) << 2 | ((a <= b) as i64) << 3 | ((a > b) as i64) << 4 | ((a >= b) as i64) << 5
}

pub fn run_all() -> i32 {
    let mut fails = 0;
    let mut total = 0;
    let mut check = |name: &str, got: Result<i64, String>, want: i64| {
        total += 1;
        if got != Ok(want) {
            fails += 1;
            println!("isatest FAILED {name}: got {got:?}, want {want}");
        }
    };
    let bounds = [0i64, 1, -1, 2, -2, i64::MAX, i64::MIN, i64::MIN + 1, i64::MAX - 1, 1 << 31, -(1 << 31), 1 << 32, 12345, -12345];
    // ---- AArch64
    check("a64 movz", run_a64("    MOVZ X0, 4660, LSL 16", &[]), 0x1234_0000);
    check("a64 movz48", run_a64("    MOVZ X0, 32768, LSL 48", &[]), i64::MIN);
    check("a64 movn0", run_a64("    MOVN X0, 0, LSL 0", &[]), -1);
    check("a64 movn", run_a64("    MOVN X0, 4660, LSL 16", &[]), !(0x1234_0000i64));
    check("a64 movn+movk", run_a64("    MOVN X0, 60875, LSL 0\n    MOVK X0, 0, LSL 32", &[]), (!(60875i64)) & !(0xffff << 32));
    check("a64 movk keeps", run_a64("    MOVZ X0, 1, LSL 0\n    MOVK X0, 2, LSL 16\n    MOVK X0, 3, LSL 32\n    MOVK X0, 4, LSL 48", &[]), 0x0004_0003_0002_0001);
    check("a64 add imm", run_a64("    MOV X0, X1\n    ADD X0, X0, 4095", &[7]), 7 + 4095);
    check("a64 sub wraps", run_a64("    SUB X0, X1, X2", &[i64::MIN, 1]), i64::MAX);
    check("a64 mul wraps", run_a64("    MUL X0, X1, X2", &[i64::MAX, 2]), i64::MAX.wrapping_mul(2));
    check("a64 sdiv trunc", run_a64("    SDIV X0, X1, X2", &[-7, 2]), -3);
    check("a64 sdiv zero", run_a64("    SDIV X0, X1, X2", &[5, 0]), 0);
    check("a64 sdiv ovf", run_a64("    SDIV X0, X1, X2", &[i64::MIN, -1]), i64::MIN);
    check("a64 msub rem", run_a64("    SDIV X3, X1, X2\n    MSUB X0, X3, X2, X1", &[-7, 2]), -1);
    // further data-processing instructions (hand-derived from the architecture manual)
    check("a64 and/orr/eor", run_a64("    AND X3, X1, X2\n    ORR X4, X1, X2\n    EOR X0, X3, X4", &[12, 10]), (12 & 10) ^ (12 | 10));
    check("a64 eor self", run_a64("    EOR X0, X1, X1", &[77]), 0);
    check("a64 lsl imm", run_a64("    LSL X0, X1, 62", &[3]), (3u64 << 62) as i64);
    check("a64 lsr imm", run_a64("    LSR X0, X1, 1", &[-8]), ((-8i64 as u64) >> 1) as i64);
    check("a64 asr imm", run_a64("    ASR X0, X1, 63", &[-8]), -1);
    check("a64 lsl reg mod 64", run_a64("    LSL X0, X1, X2", &[1, 70]), 64);
    check("a64 udiv", run_a64("    UDIV X0, X1, X2", &[-7, 2]), ((-7i64 as u64) / 2) as i64);
    check("a64 udiv zero", run_a64("    UDIV X0, X1, X2", &[5, 0]), 0);
    check("a64 madd", run_a64("    MADD X0, X1, X2, X1", &[7, 3]), 7 + 21);
    check("a64 neg", run_a64("    NEG X0, X1", &[i64::MIN]), i64::MIN);
    check("a64 mvn", run_a64("    MVN X0, X1", &[0]), -1);
    check("a64 cbz", run_a64("    MOVZ X0, 1, LSL 0\n    CBZ X1, t\n    MOVZ X0, 2, LSL 0\nt:", &[0]), 1);
    check("a64 cbnz", run_a64("    MOVZ X0, 1, LSL 0\n    CBNZ X1, t\n    MOVZ X0, 2, LSL 0\nt:", &[0]), 2);
    check("a64 tbnz sign", run_a64("    MOVZ X0, 1, LSL 0\n    TBNZ X1, 63, t\n    MOVZ X0, 2, LSL 0\nt:", &[-5]), 1);
    check("a64 tbz", run_a64("    MOVZ X0, 1, LSL 0\n    TBZ X1, 0, t\n    MOVZ X0, 2, LSL 0\nt:", &[3]), 2);
    check("a64 b.hi", run_a64("    MOVZ X0, 1, LSL 0\n    CMP X1, X2\n    B.HI t\n    MOVZ X0, 2, LSL 0\nt:", &[-1, 1]), 1);
    check("a64 b.ls", run_a64("    MOVZ X0, 1, LSL 0\n    CMP X1, X2\n    B.LS t\n    MOVZ X0, 2, LSL 0\nt:", &[-1, 1]), 2);
    check("a64 b.hs eq", run_a64("    MOVZ X0, 1, LSL 0\n    CMP X1, X2\n    B.HS t\n    MOVZ X0, 2, LSL 0\nt:", &[7, 7]), 1);
    check("a64 b.lo", run_a64("    MOVZ X0, 1, LSL 0\n    CMP X1, X2\n    B.LO t\n    MOVZ X0, 2, LSL 0\nt:", &[1, 2]), 1);
    check("a64 b.mi", run_a64("    MOVZ X0, 1, LSL 0\n    CMP X1, X2\n    B.MI t\n    MOVZ X0, 2, LSL 0\nt:", &[1, 2]), 1);
    check("a64 subs/b.eq", run_a64("    MOVZ X0, 1, LSL 0\n    SUBS X3, X1, X2\n    B.EQ t\n    MOVZ X0, 2, LSL 0\nt:", &[5, 5]), 1);
    check("a64 tst", run_a64("    MOVZ X0, 1, LSL 0\n    TST X1, X2\n    B.EQ t\n    MOVZ X0, 2, LSL 0\nt:", &[12, 3]), 1);
    check("a64 cmn", run_a64("    MOVZ X0, 1, LSL 0\n    CMN X1, X2\n    B.EQ t\n    MOVZ X0, 2, LSL 0\nt:", &[5, -5]), 1);
    check("a64 adds carry", run_a64("    MOVZ X0, 1, LSL 0\n    ADDS X3, X1, X2\n    B.HS t\n    MOVZ X0, 2, LSL 0\nt:", &[-1, 1]), 1);
    check("a64 stp/ldp", run_a64("    STP X1, X2, [ SP, -16 ]!\n    LDP X3, X4, [ SP ], 16\n    SUB X0, X3, X4", &[30, 12]), 18);
    check("a64 str/ldr sp", run_a64("    SUB SP, SP, 32\n    STR X1, [ SP, 24 ]\n    LDR X0, [ SP, 24 ]\n    ADD SP, SP, 32", &[77]), 77);
    check("a64 xzr", run_a64("    SUB SP, SP, 16\n    STR X1, [ SP, 8 ]\n    STR XZR, [ SP, 8 ]\n    LDR X0, [ SP, 8 ]\n    ADD SP, SP, 16", &[77]), 0);
    for a in bounds {
        for b in bounds {
            let body = "    MOV X9, X1\n    MOV X10, X2\n    MOVZ X0, 0, LSL 0\n    CMP X9, X10\n    BNE l1\n    ADD X0, X0, 1\nl1:\n    CMP X9, X10\n    BEQ l2\n    ADD X0, X0, 2\nl2:\n    CMP X9, X10\n    BGE l3\n    ADD X0, X0, 4\nl3:\n    CMP X9, X10\n    BGT l4\n    ADD X0, X0, 8\nl4:\n    CMP X9, X10\n    BLE l5\n    ADD X0, X0, 16\nl5:\n    CMP X9, X10\n    BLT l6\n    ADD X0, X0, 32\nl6:";
            check(&format!("a64 cmp {a} {b}"), run_a64(body, &[a, b]), cond_mask(a, b));
        }
    }
    // ---- x86-64
    check("x86 mov imm64", run_x86("    mov rax, -1311768467463790320", &[]), -1311768467463790320);
    check("x86 add wraps", run_x86("    mov rax, rsi\n    add rax, rdx", &[i64::MAX, 1]), i64::MIN);
    check("x86 imul", run_x86("    mov rax, rsi\n    imul rax, rdx", &[i64::MAX, 3]), i64::MAX.wrapping_mul(3));
    check("x86 idiv trunc", run_x86("    mov rcx, rdx\n    mov rax, rsi\n    cqo\n    idiv rcx", &[-7, 2]), -3);
    check("x86 idiv rem", run_x86("    mov rcx, rdx\n    mov rax, rsi\n    cqo\n    idiv rcx\n    mov rax, rdx", &[-7, 2]), -1);
    check("x86 push/pop", run_x86("    push rsi\n    push rdx\n    pop rax\n    pop rcx\n    sub rax, rcx", &[5, 9]), 4);
    check("x86 mem imm", run_x86("    sub rsp, 16\n    mov qword [rsp + 8], -5\n    add qword [rsp + 8], 3\n    mov rax, [rsp + 8]\n    add rsp, 16", &[]), -2);
    // further integer instructions (expected values taken from the native CPU)
    check("x86 xor zero", run_x86("    mov rax, rsi\n    xor rax, rax", &[5, 0]), 0);
    check("x86 xor", run_x86("    mov rax, rsi\n    xor rax, rdx", &[12, 10]), 6);
    check("x86 and imm", run_x86("    mov rax, rsi\n    and rax, -16", &[1234567, 0]), 1234560);
    check("x86 or mem", run_x86("    sub rsp, 16\n    mov [rsp + 8], rdx\n    mov rax, rsi\n    or rax, [rsp + 8]\n    add rsp, 16", &[12, 3]), 15);
    check("x86 test je", run_x86("    mov rax, 1\n    test rsi, rdx\n    je t\n    mov rax, 2\nt:", &[12, 3]), 1);
    check("x86 test js", run_x86("    mov rax, 1\n    test rsi, rsi\n    js t\n    mov rax, 2\nt:", &[-12, 0]), 1);
    check("x86 neg", run_x86("    mov rax, rsi\n    neg rax", &[i64::MIN, 0]), i64::MIN);
    check("x86 neg flags", run_x86("    mov rax, 1\n    mov rcx, rsi\n    neg rcx\n    jb t\n    mov rax, 2\nt:", &[0, 0]), 2);
    check("x86 not", run_x86("    mov rax, rsi\n    not rax", &[0, 0]), -1);
    check("x86 inc keeps cf", run_x86("    mov rax, 1\n    cmp rsi, rdx\n    inc rsi\n    jb t\n    mov rax, 2\nt:", &[1, 2]), 1);
    check("x86 dec jz", run_x86("    mov rax, 1\n    dec rsi\n    jz t\n    mov rax, 2\nt:", &[1, 0]), 1);
    check("x86 shl", run_x86("    mov rax, rsi\n    shl rax, 62", &[3, 0]), -4611686018427387904);
    check("x86 shr", run_x86("    mov rax, rsi\n    shr rax, 1", &[-8, 0]), 9223372036854775804);
    check("x86 sar", run_x86("    mov rax, rsi\n    sar rax, 63", &[-8, 0]), -1);
    check("x86 shl cl", run_x86("    mov rax, rsi\n    mov rcx, rdx\n    shl rax, cl", &[1, 70]), 64);
    check("x86 shr cf", run_x86("    mov rax, 1\n    shr rsi, 1\n    jb t\n    mov rax, 2\nt:", &[3, 0]), 1);
    check("x86 xchg", run_x86("    mov rax, rsi\n    xchg rax, rdx\n    sub rax, rdx", &[5, 9]), 4);
    check("x86 ja", run_x86("    mov rax, 1\n    cmp rsi, rdx\n    ja t\n    mov rax, 2\nt:", &[-1, 1]), 1);
    check("x86 jbe", run_x86("    mov rax, 1\n    cmp rsi, rdx\n    jbe t\n    mov rax, 2\nt:", &[-1, 1]), 2);
    check("x86 jae eq", run_x86("    mov rax, 1\n    cmp rsi, rdx\n    jae t\n    mov rax, 2\nt:", &[7, 7]), 1);
    check("x86 jns", run_x86("    mov rax, 1\n    cmp rsi, rdx\n    jns t\n    mov rax, 2\nt:", &[1, 2]), 2);
    check("x86 add cf", run_x86("    mov rax, 1\n    add rsi, rdx\n    jb t\n    mov rax, 2\nt:", &[-1, 1]), 1);
    check("x86 div by zero traps", run_x86("    mov rcx, rdx\n    mov rax, rsi\n    cqo\n    idiv rcx", &[1, 0]).map_err(|e| e.contains("#DE")).err().map(|b| b as i64).ok_or(String::new()), 1);
    for a in bounds {
        for b in bounds {
            let body = "    mov r8, rsi\n    mov r9, rdx\n    mov rax, 0\n    cmp r8, r9\n    jne l1\n    add rax, 1\nl1:\n    cmp r8, r9\n    je l2\n    add rax, 2\nl2:\n    cmp r8, r9\n    jge l3\n    add rax, 4\nl3:\n    cmp r8, r9\n    jg l4\n    add rax, 8\nl4:\n    cmp r8, r9\n    jle l5\n    add rax, 16\nl5:\n    cmp r8, r9\n    jl l6\n    add rax, 32\nl6:";
            check(&format!("x86 cmp {a} {b}"), run_x86(body, &[a, b]), cond_mask(a, b));
        }
    }
    // ---- RV64 (pseudo-assembly as printed)
    check("rv li", run_rv("LI X10 -1311768467463790320", &[]), -1311768467463790320);
    check("rv add imm", run_rv("ADD X10 X5 -2048", &[5]), 5 - 2048);
    check("rv div trunc", run_rv("DIV X10 X5 X7", &[-7, 2]), -3);
    check("rv div zero", run_rv("DIV X10 X5 X7", &[5, 0]), -1);
    check("rv div ovf", run_rv("DIV X10 X5 X7", &[i64::MIN, -1]), i64::MIN);
    check("rv rem", run_rv("REM X10 X5 X7", &[-7, 2]), -1);
    // the rest of RV64IM and the usual pseudo-instructions (not emitted by the pinned back end)
    check("rv divu", run_rv("DIVU X10 X5 X7", &[-7, 2]), ((-7i64 as u64) / 2) as i64);
    check("rv divu zero", run_rv("DIVU X10 X5 X7", &[5, 0]), -1);
    check("rv remu", run_rv("REMU X10 X5 X7", &[-7, 5]), ((-7i64 as u64) % 5) as i64);
    check("rv slt", run_rv("SLT X10 X5 X7", &[-1, 0]), 1);
    check("rv sltu", run_rv("SLTU X10 X5 X7", &[-1, 0]), 0);
    check("rv slti", run_rv("SLTI X10 X5 -3", &[-4]), 1);
    check("rv and/or/xor", run_rv("AND X11 X5 X7\nOR X12 X5 X7\nXOR X10 X11 X12", &[12, 10]), (12 & 10) ^ (12 | 10));
    check("rv sll", run_rv("SLL X10 X5 X7", &[3, 62]), (3u64 << 62) as i64);
    check("rv srl", run_rv("SRL X10 X5 X7", &[-8, 1]), ((-8i64 as u64) >> 1) as i64);
    check("rv sra", run_rv("SRA X10 X5 X7", &[-8, 1]), -4);
    check("rv srai", run_rv("SRAI X10 X5 63", &[-8]), -1);
    check("rv slli", run_rv("SLLI X10 X5 12", &[0x7ffff]), 0x7ffff << 12);
    check("rv lui", run_rv("LUI X10 524287", &[]), 0x7ffff000);
    check("rv lui sign", run_rv("LUI X10 524288", &[]), -2147483648);
    check("rv lui addi", run_rv("LUI X10 524288\nADDI X10 X10 -1", &[]), -2147483649);
    check("rv mulh", run_rv("MULH X10 X5 X7", &[i64::MIN, 2]), -1);
    check("rv neg", run_rv("NEG X10 X5", &[7]), -7);
    check("rv not", run_rv("NOT X10 X5", &[0]), -1);
    check("rv seqz", run_rv("SEQZ X10 X5", &[0]), 1);
    check("rv snez", run_rv("SNEZ X10 X5", &[-3]), 1);
    check("rv bltu", run_rv("LI X10 1\nBLTU X5 X7 t\nLI X10 2\nt:", &[1, -1]), 1);
    check("rv bgeu", run_rv("LI X10 1\nBGEU X5 X7 t\nLI X10 2\nt:", &[1, -1]), 2);
    check("rv bgtz", run_rv("LI X10 1\nBGTZ X5 t\nLI X10 2\nt:", &[0]), 2);
    check("rv blez", run_rv("LI X10 1\nBLEZ X5 t\nLI X10 2\nt:", &[0]), 1);
    check("rv j", run_rv("LI X10 1\nJ t\nLI X10 2\nt:", &[]), 1);
    check("rv rem zero", run_rv("REM X10 X5 X7", &[5, 0]), 5);
    check("rv rem ovf", run_rv("REM X10 X5 X7", &[i64::MIN, -1]), 0);
    check("rv sw/lw 64-bit", run_rv("SW X5 16 X2\nLW X10 16 X2", &[i64::MIN + 12345]), i64::MIN + 12345);
    check("rv x0", run_rv("ADD X0 X5 1\nMV X10 X0", &[5]), 0);
    for a in bounds {
        for b in bounds {
            let body = "LI X10 0\nBNE X5 X7 l1\nADD X10 X10 1\n\nl1:\nBEQ X5 X7 l2\nADD X10 X10 2\n\nl2:\nBGE X5 X7 l3\nADD X10 X10 4\n\nl3:\nBGT X5 X7 l4\nADD X10 X10 8\n\nl4:\nBLE X5 X7 l5\nADD X10 X10 16\n\nl5:\nBLT X5 X7 l6\nADD X10 X10 32\n\nl6:";
            check(&format!("rv cmp {a} {b}"), run_rv(body, &[a, b]), cond_mask(a, b));
        }
    }
    println!("isatest: {} vectors, {} failed", total, fails);
    if fails > 0 { 2 } else { 0 }
}
