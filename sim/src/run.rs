//! One simulated run: scenario -> precondition -> reference machine -> real backend -> load ->
//! execute under a benign and a hostile environment -> findings.

use crate::ast::Prog;
use crate::compile::{self, Backend, CompileErr};
use crate::mach::*;
use crate::prng::Rng;
use crate::refm::{self, RefEnd, RefOutcome};
use crate::{a64, rv, x86};
use serde::{Deserialize, Serialize};
use std::collections::BTreeMap;

#[derive(Clone, Debug, Serialize, Deserialize)]
pub struct Scenario {
    pub kind: String,
    pub prog: Prog,
    pub args: Vec<i64>,
    /// workload-specific data (W-subst: index of the substitution in the straight-line prefix)
    #[serde(default)]
    pub meta: Vec<i64>,
    /// != 0: the program is handed to the code generators with noisy display names
    #[serde(default)]
    pub noise: u64,
}

#[derive(Clone, Debug, Serialize, Deserialize)]
pub struct Finding {
    pub prop: String,
    pub class: Class,
    pub backend: Backend,
    pub config: String,
    pub msg: String,
    pub plan: EnvPlan,
    /// arguments the finding was observed with, if they differ from the scenario's
    #[serde(default)]
    pub args: Option<Vec<i64>>,
}

pub fn prop_of(class: Class, b: Backend) -> &'static str {
    match class {
        Class::History | Class::Progress | Class::UndefEntry | Class::BadJump | Class::Text | Class::Trap => match b {
            Backend::X86 => "C06",
            Backend::A64 => "C07",
            Backend::Rv => "C08",
        },
        Class::Disagree => "C08",
        Class::Heap | Class::Confinement => "C09",
        Class::Footprint => "C10",
        Class::Subst => "C11",
        Class::Align | Class::Abi | Class::UndefCall => "C13",
        Class::Capacity => "none",
    }
}

pub enum Loaded {
    X(x86::Prog),
    A(a64::Prog),
    R(rv::Prog),
}

pub fn load(b: Backend, text: &str, code_base: u64) -> Result<Loaded, LoadErr> {
    Ok(match b {
        Backend::X86 => Loaded::X(x86::load(text, code_base)?),
        Backend::A64 => Loaded::A(a64::load(text, code_base)?),
        Backend::Rv => Loaded::R(rv::load(text, code_base)?),
    })
}

pub fn exec(l: &Loaded, args: &[i64], plan: &EnvPlan, opts: &ExecOpts) -> (ExecOutcome, Vec<Snap>) {
    match l {
        Loaded::X(p) => x86::exec(p, args, plan, opts),
        Loaded::A(p) => a64::exec(p, args, plan, opts),
        Loaded::R(p) => rv::exec(p, args, plan, opts),
    }
}

pub fn max_args(b: Backend) -> usize {
    match b {
        Backend::X86 => 5,
        Backend::A64 => 7,
        Backend::Rv => 14,
    }
}

/// E5 address layout + E7 capacity, drawn per run
pub fn layout(rng: &mut Rng, plan: &mut EnvPlan, heap_blocks: usize) {
    plan.heap_base = 0x5000_0000_0000 + (rng.below(1 << 20) as u64) * 4096 + (rng.below(4) as u64) * 16;
    if rng.pct(30) {
        plan.heap_base &= !63;
    }
    plan.stack_top = 0x7ff0_0000_0000 + (rng.below(1 << 20) as u64) * 4096 + (rng.below(256) as u64) * 16;
    plan.code_base = 0x40_0000 + (rng.below(1 << 16) as u64) * 4096 + (rng.below(1024) as u64) * 4;
    plan.heap_blocks = heap_blocks;
    plan.garbage_seed = rng.next();
}

pub fn hostile_plan(rng: &mut Rng, heap_blocks: usize) -> EnvPlan {
    let mut p = EnvPlan::benign();
    layout(rng, &mut p, heap_blocks);
    // swarm: each kind on with probability 2/3, at least one
    loop {
        p.e1_regs = rng.pct(66);
        p.e2_flags = rng.pct(66);
        p.e3_depth = if rng.pct(66) { [1, 2, 4, 16, 17, 64][rng.below(6)] } else { 0 };
        p.e4_entry = rng.pct(66);
        p.e6_stack = rng.pct(66);
        if p.is_hostile() {
            break;
        }
    }
    p
}

pub fn benign_plan(rng: &mut Rng, heap_blocks: usize) -> EnvPlan {
    let mut p = EnvPlan::benign();
    layout(rng, &mut p, heap_blocks);
    p
}

#[derive(Clone, Debug, Default, Serialize, Deserialize)]
pub struct Stats {
    pub runs: u64,
    pub executions: u64,
    pub discarded: BTreeMap<String, u64>,
    pub notes: BTreeMap<String, u64>,
    pub instructions: u64,
    pub markers: u64,
    pub heap_checks: u64,
    pub ref_steps: u64,
    pub calls: u64,
    pub bumps: u64,
    pub faults: FaultCounts,
    pub probes: BTreeMap<String, u64>,
    pub classes: BTreeMap<String, u64>,
    pub per_backend_exec: BTreeMap<String, u64>,
    pub max_live_hist: BTreeMap<usize, u64>,
    pub stmts: u64,
    pub log_hash: u64,
    pub other_findings: BTreeMap<String, u64>,
}

impl Stats {
    pub fn merge(&mut self, o: &Stats) {
        self.runs += o.runs;
        self.executions += o.executions;
        for (k, v) in &o.discarded {
            *self.discarded.entry(k.clone()).or_default() += v;
        }
        for (k, v) in &o.notes {
            *self.notes.entry(k.clone()).or_default() += v;
        }
        self.instructions += o.instructions;
        self.markers += o.markers;
        self.heap_checks += o.heap_checks;
        self.ref_steps += o.ref_steps;
        self.calls += o.calls;
        self.bumps += o.bumps;
        self.faults.add(&o.faults);
        for (k, v) in &o.probes {
            *self.probes.entry(k.clone()).or_default() += v;
        }
        for (k, v) in &o.classes {
            *self.classes.entry(k.clone()).or_default() += v;
        }
        for (k, v) in &o.per_backend_exec {
            *self.per_backend_exec.entry(k.clone()).or_default() += v;
        }
        for (k, v) in &o.max_live_hist {
            *self.max_live_hist.entry(*k).or_default() += v;
        }
        self.stmts += o.stmts;
        self.log_hash = self.log_hash.wrapping_add(o.log_hash);
        for (k, v) in &o.other_findings {
            *self.other_findings.entry(k.clone()).or_default() += v;
        }
    }
    pub fn discard(&mut self, why: &str) {
        *self.discarded.entry(why.to_string()).or_default() += 1;
    }
    pub fn note(&mut self, why: &str) {
        *self.notes.entry(why.to_string()).or_default() += 1;
    }
    fn absorb(&mut self, b: Backend, o: &ExecOutcome) {
        self.executions += 1;
        *self.per_backend_exec.entry(b.name().to_string()).or_default() += 1;
        self.instructions += o.steps;
        self.markers += o.markers;
        self.heap_checks += o.heap_checks;
        self.calls += o.calls.len() as u64;
        self.bumps += o.bumps;
        self.faults.add(&o.faults);
        for (k, v) in &o.probes {
            *self.probes.entry(k.clone()).or_default() += v;
        }
        // commutative combination: independent of how runs are partitioned over workers
        self.log_hash = self.log_hash.wrapping_add(o.log_hash.wrapping_mul(0x9e3779b97f4a7c15) ^ (o.log_hash >> 29));
    }
}

pub struct RunCfg {
    pub backends: Vec<Backend>,
    pub check_heap: bool,
    pub hostile: bool,
    pub record_snaps: usize,
    pub ref_budget: u64,
}

pub enum HarnessErr {
    Msg(String),
}

pub struct ExecPair {
    pub benign: Option<(ExecOutcome, Vec<Snap>)>,
    pub hostile: Option<(ExecOutcome, Vec<Snap>, EnvPlan)>,
}

/// compare an execution with the reference history
pub fn judge(b: Backend, config: &str, plan: &EnvPlan, ro: &RefOutcome, out: &ExecOutcome, benign_ok: bool) -> Vec<Finding> {
    let mut fs = Vec::new();
    let mk = |class: Class, msg: String| Finding {
        prop: prop_of(class, b).to_string(),
        class,
        backend: b,
        config: config.to_string(),
        msg,
        plan: plan.clone(),
        args: None,
    };
    for v in &out.soft {
        fs.push(mk(v.class, v.msg.clone()));
    }
    if let Some(v) = &out.viol {
        if v.class != Class::Capacity {
            fs.push(mk(v.class, v.msg.clone()));
        }
        return fs;
    }
    let RefEnd::Exit(rv) = ro.end else { return fs };
    let same_calls = out.calls.len() == ro.prints.len()
        && out.calls.iter().zip(&ro.prints).all(|(a, b)| a.newline == b.newline && a.arg == b.val);
    if !same_calls || out.result != Some(rv) {
        let first = out
            .calls
            .iter()
            .zip(&ro.prints)
            .position(|(a, b)| a.newline != b.newline || a.arg != b.val)
            .unwrap_or(out.calls.len().min(ro.prints.len()));
        let msg = if !same_calls {
            format!(
                "print history differs from the AxCut machine at call #{first}: expected {:?}, got {:?} ({} vs {} calls)",
                ro.prints.get(first),
                out.calls.get(first),
                ro.prints.len(),
                out.calls.len()
            )
        } else {
            format!("result differs from the AxCut machine: expected {rv}, got {:?}", out.result)
        };
        // a difference that only shows up under a hostile environment is environment dependence
        let mut f = mk(Class::History, msg);
        if config == "hostile" && benign_ok {
            f.prop = if out.faults.calls > 0 { "C13".into() } else { prop_of(Class::History, b).into() };
            f.msg = format!("behaviour depends on the environment: {}", f.msg);
        }
        fs.push(f);
    }
    fs
}

pub struct ScenarioResult {
    pub findings: Vec<Finding>,
    pub harness: Option<String>,
    /// per backend: result value (for three-way agreement)
    pub results: BTreeMap<Backend, Option<i64>>,
    pub snaps: BTreeMap<Backend, Vec<Snap>>,
    /// per backend: (peak reachable blocks, maximal frontier in blocks) of the benign execution
    pub peaks: BTreeMap<Backend, (usize, usize)>,
    pub reference: Option<RefOutcome>,
}

/// Run one scenario on the requested backends. `seed_rng` supplies layout and fault plans.
pub fn run_scenario(sc: &Scenario, cfg: &RunCfg, rng: &mut Rng, keys: u64, stats: &mut Stats, fixed_plan: Option<&EnvPlan>) -> ScenarioResult {
    let mut res = ScenarioResult { findings: Vec::new(), harness: None, results: BTreeMap::new(), snaps: BTreeMap::new(), peaks: BTreeMap::new(), reference: None };
    stats.runs += 1;
    stats.stmts += sc.prog.stmt_count() as u64;
    match refm::check_prog(&sc.prog) {
        Ok(maxlen) => {
            *stats.max_live_hist.entry(maxlen).or_default() += 1;
        }
        Err(e) => {
            if sc.kind.starts_with("pipe") || sc.kind.starts_with("corpus") {
                stats.discard("precondition: not linearly well-typed");
            } else {
                res.harness = Some(format!("generated scenario is not linearly well-typed: {e}"));
            }
            return res;
        }
    }
    let ro = refm::run(&sc.prog, &sc.args, cfg.ref_budget);
    stats.ref_steps += ro.steps;
    match &ro.end {
        RefEnd::Exit(_) => {}
        RefEnd::Undefined(_) => {
            stats.discard("reference undefined (division)");
            return res;
        }
        RefEnd::Budget => {
            stats.discard("reference step budget");
            return res;
        }
        RefEnd::Stuck(m) => {
            res.harness = Some(format!("reference machine stuck on a well-typed program: {m}"));
            return res;
        }
    }
    res.reference = Some(ro.clone());
    let heap_blocks = 4096;
    for &b in &cfg.backends {
        if sc.args.len() > max_args(b) {
            stats.discard(&format!("{}: too many arguments", b.name()));
            continue;
        }
        if b == Backend::Rv && !ro.prints.is_empty() {
            stats.discard("rv64: program prints");
            continue;
        }
        let text = match compile::emit_noisy(&sc.prog, b, keys, sc.noise) {
            Ok(t) => t,
            Err(CompileErr::Capacity(_)) => {
                stats.discard(&format!("{}: backend capacity", b.name()));
                continue;
            }
            Err(CompileErr::Panic(m)) => {
                stats.note(&format!("{}: pipeline failure: {}", b.name(), m.chars().take(80).collect::<String>()));
                continue;
            }
        };
        let mut lrng = rng.fork(b.name());
        let bplan = match fixed_plan {
            Some(p) if !p.is_hostile() => p.clone(),
            _ => benign_plan(&mut lrng, heap_blocks),
        };
        let loaded = match load(b, &text, bplan.code_base) {
            Ok(l) => l,
            Err(LoadErr::Text(v)) if v.msg.contains("ADR target out of the") => {
                // more than 1 MiB of code between an ADR and its label: a scale limit of the
                // AArch64 backend, treated like the documented capacity limits
                stats.discard("aarch64: program larger than the ADR range");
                continue;
            }
            Err(LoadErr::Text(v)) => {
                res.findings.push(Finding {
                    prop: prop_of(Class::Text, b).into(),
                    class: Class::Text,
                    backend: b,
                    config: "load".into(),
                    msg: format!("text not executable: {}", v.msg),
                    plan: bplan.clone(),
                    args: None,
                });
                continue;
            }
            Err(LoadErr::Harness(m)) => {
                res.harness = Some(format!("{} loader: {m}", b.name()));
                return res;
            }
        };
        let opts = ExecOpts { step_budget: 2000 * ro.steps + 10_000, check_heap: cfg.check_heap, record_snaps: cfg.record_snaps, print_hook: None };
        let mut benign_ok = true;
        if fixed_plan.map(|p| !p.is_hostile()).unwrap_or(true) {
            let (out, snaps) = exec(&loaded, &sc.args, &bplan, &opts);
            stats.absorb(b, &out);
            if out.viol.as_ref().map(|v| v.class == Class::Capacity).unwrap_or(false) {
                stats.discard("simulated heap capacity exceeded");
            }
            let fs = judge(b, "benign", &bplan, &ro, &out, true);
            benign_ok = fs.is_empty();
            res.findings.extend(fs);
            res.results.insert(b, out.result);
            res.peaks.insert(b, (out.peak_reach, out.frontier_blocks));
            res.snaps.insert(b, snaps);
        }
        if (cfg.hostile && fixed_plan.is_none()) || fixed_plan.map(|p| p.is_hostile()).unwrap_or(false) {
            let hplan = match fixed_plan {
                Some(p) => p.clone(),
                None => hostile_plan(&mut lrng, heap_blocks),
            };
            // the code base is part of the loaded program; keep the benign one
            let mut hplan = hplan;
            hplan.code_base = bplan.code_base;
            let (out, _) = exec(&loaded, &sc.args, &hplan, &opts);
            stats.absorb(b, &out);
            let fs = judge(b, "hostile", &hplan, &ro, &out, benign_ok);
            res.findings.extend(fs);
        }
    }
    res
}
