#!/bin/bash
# Determinism proof: the same VERIF_SEED must give the same event-log hash (chain over statement
# boundaries, external calls, injected faults and verdicts of every execution) when the check is
# repeated and when the runs are partitioned over a different number of worker processes.
cd /verif || exit 2
ids=${IDS:-"C06 C07 C08 C09 C11 C13"}
seeds=${SEEDS:-"1 2 3"}
fail=0
for id in $ids; do
  for seed in $seeds; do
    hs=""
    for w in 16 1 16 5; do
      VERIF_SEED=$seed VERIF_WORKERS=$w ./check $id quick >/dev/null 2>&1
      h=$(python3 -c "import json;e=json.load(open('/verif/evidence/$id.json'));print(e['coverage']['event_log_hash'], e['coverage']['evaluations'])")
      hs="$hs|$h"
    done
    first=$(echo "$hs" | cut -d'|' -f2)
    ok=1; for h in $(echo "$hs" | tr '|' '\n' | tr ' ' '_'); do [ "$h" = "$(echo $first | tr ' ' '_')" ] || ok=0; done
    echo "$id seed=$seed workers=16,1,16,5 -> $hs $( [ $ok = 1 ] && echo SAME || echo DIFFERENT )"
    [ $ok = 1 ] || fail=1
  done
done
# restore default-seed evidence
for id in $ids; do VERIF_SEED=1 ./check $id quick >/dev/null 2>&1; done
exit $fail
