#!/bin/bash
# Determinism proof: the same VERIF_SEED must give the same event-log hash (chain over statement
# boundaries, external calls, injected faults and verdicts of every execution) when the check is
# repeated and when the runs are partitioned over a different number of worker processes.
cd /verif || exit 2
ids=${IDS:-"C06 C07 C08 C09 C11 C13"}
seeds=${SEEDS:-"1 2 3"}
fail=0
for id in $ids; do
  for seed in $seeds; do
    hs=""
    for w in 16 1 16 5; do
      VERIF_SEED=$seed VERIF_WORKERS=$w ./check $id quick >/dev/null 2>&1
      h=$(python3 -c "import json;e=json.load(open('/verif/evidence/$id.json'));print(e['coverage']['event_log_hash'], e['coverage']['evaluations'])")
      hs="$hs|$h"
    done
    first=$(echo "$hs" | cut -d'|' -f2)
    ok=1; for h in $(echo "$hs" | tr '|' '\n' | tr ' ' '_'); do [ "$h" = "$(echo $first | tr ' ' '_')" ] || ok=0; done
    echo "$id seed=$seed workers=16,1,16,5 -> $hs $( [ $ok = 1 ] && echo SAME || echo DIFFERENT )"
    [ $ok = 1 ] || fail=1
  done
done
# engines X and K: the whole evidence (minus wall-clock figures and the sample programs shown) must
# repeat; engine X also across worker counts (engine K simulates one process instance per worker,
# so its instance counts depend on the worker count by construction)
xids=${XIDS:-C01 C20 C17}
for id in $xids; do
  rm -f /tmp/verif-det-$id-*.json
  for w in 16 16 5; do
    VERIF_SEED=1 VERIF_WORKERS=$w ./check $id quick >/dev/null 2>&1
    cp /verif/evidence/$id.json /tmp/verif-det-$id-$w-$RANDOM.json
  done
  python3 - "$id" <<'PY' || fail=1
import json,glob,sys
id=sys.argv[1]
def strip(o):
    if isinstance(o,dict):
        return {k:strip(v) for k,v in o.items() if k!='samples' and not any(t in k for t in ('wall','per_hour','seconds','worker'))}
    if isinstance(o,list): return [strip(x) for x in o]
    return o
fs=sorted(glob.glob(f'/tmp/verif-det-{id}-*.json'))
same16={json.dumps(strip(json.load(open(f))),sort_keys=True) for f in fs if f'-{id}-16-' in f}
alls={json.dumps(strip(json.load(open(f))),sort_keys=True) for f in fs}
ok = len(same16)==1 and (id=='C17' or len(alls)==1)
print(id, 'repeat at 16 workers:', 'SAME' if len(same16)==1 else 'DIFFERENT', '| 16 vs 5 workers:', 'SAME' if len(alls)==1 else ('n/a' if id=='C17' else 'DIFFERENT'))
sys.exit(0 if ok else 1)
PY
  rm -f /tmp/verif-det-$id-*.json
done
# restore default-seed evidence
for id in $ids $xids; do VERIF_SEED=1 ./check $id quick >/dev/null 2>&1; done
exit $fail
