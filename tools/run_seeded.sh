#!/bin/bash
# tools/run_seeded.sh [pattern]: meta-test of the machinery. Every kept breaking change under
# seeded/ must be caught (exit 1) by the quick tier of each check listed in its meta.json
# (detected_by), every semantics-preserving change under seeded/benign/ must leave all listed
# checks silent (exit 0). Works in a scratch copy (tools/try_mutant_wt.sh); /repo and /verif stay untouched.
cd /verif || exit 2
export MUT=${MUT:-/tmp/mutS}
pat=${1:-}
fail=0
for d in seeded/*/ seeded/benign/*/; do
  d=${d%/}
  [ -f $d/patch.diff ] || continue
  case "$d" in *"$pat"*) ;; *) continue ;; esac
  if [[ $d == seeded/benign/* ]]; then
    ids=$(python3 -c "import json;print(' '.join(json.load(open('$d/meta.json'))['checks_run'][0].split()[2:]))")
    want=0
  else
    # (entries such as "C08 (thorough tier)" are not part of the quick-tier regression)
    ids=$(python3 -c "import json;print(' '.join(x.split()[0] for x in json.load(open('$d/meta.json'))['detected_by'] if 'thorough' not in x))")
    want=1
  fi
  out=$(tools/try_mutant_wt.sh $d/patch.diff $ids 2>&1)
  res=""
  for id in $ids; do
    rc=$(echo "$out" | grep -- "--- $id exit=" | sed 's/.*exit=//')
    res="$res $id=$rc"
    [ "$rc" = "$want" ] || fail=1
  done
  echo "$(basename $d) want=$want:$res"
done
exit $fail
