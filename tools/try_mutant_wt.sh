#!/bin/bash
# tools/try_mutant_wt.sh <patch.diff> <ID> [<ID>...]
# Evaluate a seeded change WITHOUT touching /repo or /verif: the patch is applied to a scratch
# worktree of /repo's HEAD, a scratch copy of /verif/sim is pointed at that worktree, and the
# checks write their evidence/replays under the scratch output directory.
set -u
MUT=${MUT:-/tmp/mut}
patch=$(readlink -f "$1"); shift
mkdir -p $MUT/out
head=$(git -C /repo rev-parse HEAD)
if [ ! -d $MUT/repo ]; then git -C /repo worktree add -q --detach $MUT/repo $head || exit 2; fi
git -C $MUT/repo checkout -q --detach $head 2>/dev/null
git -C $MUT/repo checkout -q -- . ; git -C $MUT/repo clean -fdq lang app >/dev/null 2>&1
git -C $MUT/repo apply "$patch" || { echo "patch does not apply"; exit 2; }
rsync -a --delete --exclude target /verif/sim/ $MUT/sim/
sed -i "s#\"/repo/lang#\"$MUT/repo/lang#g" $MUT/sim/Cargo.toml
if ! (cd $MUT/sim && CARGO_NET_OFFLINE=true cargo build --release --offline >$MUT/build.log 2>&1); then echo "BUILD FAILED"; tail -5 $MUT/build.log; exit 2; fi
cp /verif/known_findings.json $MUT/out/
rm -rf $MUT/out/replays
for id in "$@"; do
  out=$(VERIF_OUT=$MUT/out VERIF_REPO=$MUT/repo VERIF_SEED=${VERIF_SEED:-1} $MUT/sim/target/release/sim check "$id" ${TIER:-quick} 2>&1); rc=$?
  echo "--- $id exit=$rc"
  echo "$out" | grep -E "VIOLATION|HARNESS|class=" | head -8
  echo "$out" | grep -A1 "class=" | grep -v "class=" | grep -v '^--' | head -3 | cut -c1-300
done
git -C $MUT/repo checkout -q -- .
