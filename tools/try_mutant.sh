#!/bin/bash
# tools/try_mutant.sh <patch.diff> <ID> [<ID>...] : apply a change to /repo, run the quick checks, undo.
set -u
patch=$1; shift
cd /repo || exit 2
if ! git diff --quiet; then echo "repo dirty"; exit 2; fi
git apply "$patch" || { echo "patch does not apply"; exit 2; }
for id in "$@"; do
  out=$(VERIF_SEED=${VERIF_SEED:-1} /verif/check "$id" ${TIER:-quick} 2>&1); rc=$?
  echo "--- $id exit=$rc"
  echo "$out" | grep -E "VIOLATION|HARNESS|KNOWN|class=" | head -8
  echo "$out" | grep -A1 "class=" | grep -v "class=" | grep -v '^--' | head -3
done
git -C /repo checkout -- . 
